/* C06 / C07: the drain loop of the write queue, Transport::asyncWriteImpl (src/common/transport.cc, sel mode) together with
 * the inlined BufferHolder / WriteEntry code of include/pistache/transport.h.
 *
 * State: one connection FD with NE_ <= NE pending WriteEntry objects (each raw buffer or file, symbolic size <= SZ,
 * symbolic send flags; the head entry may carry a resume offset as left behind by an earlier would-block), held in a
 * ghost std::deque whose elements are exact-size heap blocks (pop_front runs the REAL ~WriteEntry and frees the block, so
 * any use of `entry`/`buffer` after it is a use-after-free for CBMC).  asyncWriteImpl(FD) is invoked CALLS times (first
 * from handleWriteQueue, later from the writable event); ::send / ::sendfile are a fault stub driven by the solver: each
 * call accepts an arbitrary count 1..len, or fails with EAGAIN, or (script permitting) with a hard error.
 *
 * Asserted (C06): every send/sendfile call continues exactly at the end of the accepted stream (same entry, pointer ==
 * data + accepted, len == size - accepted, file offset == accepted, original flags): nothing lost, duplicated, reordered;
 * each promise settled at most once; fulfilled only after its last byte was accepted and with the buffer's FULL size;
 * after EAGAIN the unwritten tail is again the head entry (same promise, offset == accepted, flags, peer fd) and the rest
 * of the queue is untouched; when no fault remains everything is fulfilled and write interest is dropped.
 * Asserted (C07): after EAGAIN no further send attempt happens in the same invocation (no spinning: a stub that keeps
 * answering EAGAIN would otherwise fail the unwinding assertion), Read|Write interest is armed exactly once, the queue
 * lock is released on return, queues of other descriptors are not touched.                                            */
#include "vp.h"
#include "libc.h"
#include "ghost.h"
#include "offsets.h"
#ifndef NE
#define NE 2
#endif
#ifndef SZ
#define SZ 3
#endif
#ifndef CALLS
#define CALLS 2
#endif
/* C07 runs this harness with -DONLY_C07: only the obligations of the would-block step (tagged A07) are asserted there */
#ifdef ONLY_C07
#define A06(c, m) do { (void)(c); } while (0)
#else
#define A06(c, m) __CPROVER_assert(c, m)
#endif
#define A07(c, m) __CPROVER_assert(c, m)
#define FD 7
#define OTHERFD 9
#define DQCAP (NE + 4)
#define DQ0 2
void _ZN8Pistache3Tcp9Transport14asyncWriteImplEi(u8*, u32);
void _ZN8Pistache3Tcp9Transport10WriteEntryD2Ev(u8*);

static u8 transport[SIZEOF_Transport] __attribute__((aligned(8)));
typedef struct { u32 first; u32 pad; u8 second[SIZEOF_WriteDeque]; } node_t;
static node_t nodeA, nodeB;
static int presentA = 1;
static u8* slot[DQCAP]; static int dq_head = DQ0, dq_tail = DQ0;
static u8 cores[NE + 1][8];
static u8* data[NE]; static u64 size_[NE]; static u8 is_file[NE]; static u32 flags_[NE];
static u64 acc[NE];           /* bytes of entry i accepted by the socket so far */
static int cur;               /* entry at the head of the not-yet-accepted stream */
static int settled[NE], resolved_[NE]; static u64 value_[NE]; static int closed[NE];
static int held; static int hard_error; static int eagain_now; static int sends_after_eagain; static int nofault;
static int modify_rw, modify_r, modify_other; static int touchedB; static int erasedA;
static int rejected_[NE];

/* ---- std::unique_lock<std::mutex> */
typedef struct { u8* m; u8 owns; } ulock_t;
void _ZNSt11unique_lockISt5mutexEC2ERS0_(u8* l, u8* m) {
  A07(m == transport + OFF_Transport_toWriteLock, "the lock taken is toWriteLock");
  A07(!held, "toWriteLock is not taken twice (self-deadlock)");
  held = 1; ((ulock_t*)l)->m = m; ((ulock_t*)l)->owns = 1; }
void _ZNSt11unique_lockISt5mutexE6unlockEv(u8* l) {
  A07(((ulock_t*)l)->owns, "unlock() of a lock that is owned (otherwise std::system_error)");
  ((ulock_t*)l)->owns = 0; held = 0; }
void _ZNSt11unique_lockISt5mutexED2Ev(u8* l) { if (((ulock_t*)l)->owns) { ((ulock_t*)l)->owns = 0; held = 0; } }
/* ---- std::unordered_map<Fd, std::deque<WriteEntry>> toWrite */
#define MAPT "St13unordered_mapIiSt5dequeIN8Pistache3Tcp9Transport10WriteEntryESaIS4_EESt4hashIiESt8equal_toIiESaISt4pairIKiS6_EEE"
u8* _ZNSt13unordered_mapIiSt5dequeIN8Pistache3Tcp9Transport10WriteEntryESaIS4_EESt4hashIiESt8equal_toIiESaISt4pairIKiS6_EEE4findERSC_(u8* m, u8* k) {
  A06(m == transport + OFF_Transport_toWrite && held, "toWrite is accessed under toWriteLock");
  if (*(u32*)k == FD) return presentA ? (u8*)&nodeA : 0;
  touchedB = 1; return (u8*)&nodeB; }
u8* _ZSt3endISt13unordered_mapIiSt5dequeIN8Pistache3Tcp9Transport10WriteEntryESaIS5_EESt4hashIiESt8equal_toIiESaISt4pairIKiS7_EEEEDTcldtfp_3endEERT_(u8* m) { (void)m; return 0; }
u8 _ZNSt8__detaileqERKNS_19_Node_iterator_baseISt4pairIKiSt5dequeIN8Pistache3Tcp9Transport10WriteEntryESaIS7_EEELb0EEESD_(u8* a, u8* b) { return *(u8**)a == *(u8**)b; }
u8* _ZNKSt8__detail14_Node_iteratorISt4pairIKiSt5dequeIN8Pistache3Tcp9Transport10WriteEntryESaIS7_EEELb0ELb0EEptEv(u8* it) { return *(u8**)it; }
static void dq_destroy_front(void) { u8* e = slot[dq_head]; _ZN8Pistache3Tcp9Transport10WriteEntryD2Ev(e); free(e); slot[dq_head] = 0; dq_head++; }
u64 _ZNSt13unordered_mapIiSt5dequeIN8Pistache3Tcp9Transport10WriteEntryESaIS4_EESt4hashIiESt8equal_toIiESaISt4pairIKiS6_EEE5eraseERSC_(u8* m, u8* k) {
  A06(m == transport + OFF_Transport_toWrite && held, "toWrite is modified under toWriteLock");
  if (*(u32*)k != FD) { touchedB = 1; return 0; }
  if (!presentA) return 0;
  for (int i = 0; i < DQCAP; i++) if (dq_head < dq_tail) dq_destroy_front();
  presentA = 0; erasedA++; return 1; }
/* ---- std::deque<WriteEntry> */
static void dq_is_A(u8* d) { if (d != nodeA.second) touchedB = 1; A06(d == nodeA.second && presentA && held, "queue operations go to the queue of this descriptor, while it exists, under the lock"); }
u8 _ZNKSt5dequeIN8Pistache3Tcp9Transport10WriteEntryESaIS3_EE5emptyEv(u8* d) { dq_is_A(d); return dq_head == dq_tail; }
u8* _ZNSt5dequeIN8Pistache3Tcp9Transport10WriteEntryESaIS3_EE5frontEv(u8* d) { dq_is_A(d); A06(dq_head < dq_tail, "front() of a non-empty queue"); return slot[dq_head]; }
void _ZNSt5dequeIN8Pistache3Tcp9Transport10WriteEntryESaIS3_EE9pop_frontEv(u8* d) { dq_is_A(d); A06(dq_head < dq_tail, "pop_front() of a non-empty queue"); dq_destroy_front(); }
static void sp_move(u8* dst, u8* src) { *(u8**)dst = *(u8**)src; *(u8**)(dst + 8) = *(u8**)(src + 8); *(u8**)src = 0; *(u8**)(src + 8) = 0; }
static void entry_move(u8* e, u8* src) {     /* WriteEntry(WriteEntry&&) = default */
  memcpy(e, src, SIZEOF_WriteEntry);
  *(u8**)(src + OFF_WriteEntry_deferred + OFF_Deferred_resolver) = 0; *(u8**)(src + OFF_WriteEntry_deferred + OFF_Deferred_rejection) = 0;
  GS(src + OFF_WriteEntry_buffer + OFF_BufferHolder_raw + OFF_RawBuffer_data)->len = 0; }
void _ZNSt5dequeIN8Pistache3Tcp9Transport10WriteEntryESaIS3_EE10push_frontEOS3_(u8* d, u8* src) {
  dq_is_A(d); A07(dq_head > 0, "ghost deque capacity");
  u8* e = (u8*)malloc(SIZEOF_WriteEntry); __CPROVER_assume(e != 0); entry_move(e, src); dq_head--; slot[dq_head] = e; }
void _ZNSt5dequeIN8Pistache3Tcp9Transport10WriteEntryESaIS3_EE9push_backEOS3_(u8* d, u8* src) {
  dq_is_A(d); A07(dq_tail < DQCAP, "ghost deque capacity");
  u8* e = (u8*)malloc(SIZEOF_WriteEntry); __CPROVER_assume(e != 0); entry_move(e, src); slot[dq_tail] = e; dq_tail++; }
void _ZNSt5dequeIN8Pistache3Tcp9Transport10WriteEntryESaIS3_EE12emplace_backIJS3_EEERS3_DpOT_(u8* d, u8* src) { _ZNSt5dequeIN8Pistache3Tcp9Transport10WriteEntryESaIS3_EE9push_backEOS3_(d, src); }
/* ---- shared_ptr<Core> (identity only: the pointee is never touched, settle operations are recording stubs) */
void _ZNSt10shared_ptrIN8Pistache5Async7Private4CoreEEC2EOS4_(u8* d, u8* s) { sp_move(d, s); }
u8* _ZNSt10shared_ptrIN8Pistache5Async7Private4CoreEEaSEOS4_(u8* d, u8* s) { sp_move(d, s); return d; }   /* move assignment (used by code shapes that hand a deferred back) */
void _ZNSt12__shared_ptrIN8Pistache5Async7Private4CoreELN9__gnu_cxx12_Lock_policyE2EED2Ev(u8* p) { (void)p; }
void _ZNSt10shared_ptrIN8Pistache5Async7Private4CoreEED2Ev(u8* p) { (void)p; }
static int core_index(u8* sp) { u8* c = *(u8**)sp; for (int i = 0; i < NE; i++) if (c == cores[i]) return i; return -1; }
/* Resolver::operator()<long>(long&&), Rejection::operator()<Error>(Error): recording stubs */
u8 _ZNK8Pistache5Async8ResolverclIlEEbOT_(u8* self, u8* v) {
  int i = core_index(self); A06(i >= 0, "resolve is called on a live promise (not a moved-from Deferred)");
  if (i < 0) return 0;
  settled[i]++; resolved_[i] = 1; value_[i] = *(u64*)v;
  A06(settled[i] <= 1, "each write's promise is settled at most once");
  A06(hard_error || acc[i] == size_[i], "a promise is fulfilled only after the buffer's last byte was accepted by the socket");
  A06(hard_error || value_[i] == size_[i], "a promise is fulfilled with the buffer's full byte count");
  A06(!held, "continuations run with toWriteLock released");
  return 1; }
u8 _ZNK8Pistache5Async9RejectionclINS_5ErrorEEEbT_(u8* self, u8* e) {
  (void)e; int i = core_index(self); A06(i >= 0, "reject is called on a live promise (not a moved-from Deferred)");
  if (i < 0) return 0;
  settled[i]++; rejected_[i] = 1;
  A06(settled[i] <= 1, "each write's promise is settled at most once");
  A06(hard_error, "a promise is rejected only after a socket error (never for short writes or would-block)");
  A06(!held, "continuations run with toWriteLock released");
  return 1; }
void _ZN8Pistache5Error6systemEPKc(u8* ret, u8* msg) { (void)msg; VP_EXC_SETVT(ret); }
void _ZN8Pistache5ErrorD2Ev(u8* s) { (void)s; } void _ZN8Pistache5ErrorD1Ev(u8* s) { (void)s; }
void _ZNSt13runtime_errorC2EOS_(u8* d, u8* s) { (void)s; VP_EXC_SETVT(d); }
void _ZNSt13runtime_errorC2ERKS_(u8* d, u8* s) { (void)s; VP_EXC_SETVT(d); }
/* ---- RawBuffer accessors (src/common/stream.cc) */
u8* _ZNK8Pistache9RawBuffer4dataB5cxx11Ev(u8* r) { return r + OFF_RawBuffer_data; }
u64 _ZNK8Pistache9RawBuffer4sizeEv(u8* r) { return *(u64*)(r + OFF_RawBuffer_length); }
/* RawBuffer::copy(from): the tail as a new buffer (only reached if detach() goes back to copying the tail) */
void _ZNK8Pistache9RawBuffer4copyEm(u8* ret, u8* r, u64 from) {
  u64 len = *(u64*)(r + OFF_RawBuffer_length); if (from > len) from = len;
  GS(ret + OFF_RawBuffer_data)->p = GS(r + OFF_RawBuffer_data)->p + from; GS(ret + OFF_RawBuffer_data)->len = len - from; *(u64*)(ret + OFF_RawBuffer_length) = len - from; }
/* ---- reactor */
void _ZN8Pistache3Aio7Reactor8modifyFdERKNS1_3KeyEiNS_7Polling8NotifyOnENS5_4ModeE(u8* r, u8* key, u32 fd, u32 interest, u32 mode) {
  (void)r; (void)key; (void)mode;
  A06(fd == FD, "interest is modified for this descriptor only");
  if (interest == (1u | 2u)) modify_rw++; else if (interest == 1u) modify_r++; else modify_other++; }
/* ---- the socket: fault stub */
static u64 sock_result(u64 len) {
  VP_IN(u8, f, "fault");            /* 0: accept some bytes, 1: EAGAIN, 2: EPIPE, 3: another errno */
  if (nofault) f = 0;
#ifndef HARD_ERRORS
  __CPROVER_assume(f <= 1);
#else
  __CPROVER_assume(f <= 3);
#endif
  if (f == 1) { vp_errno = 11; eagain_now = 1; return (u64)-1; }
  if (f == 2) { vp_errno = 32; hard_error = 1; return (u64)-1; }
  if (f == 3) { vp_errno = 5; hard_error = 1; return (u64)-1; }
  VP_IN(u64, r, "accepted"); __CPROVER_assume(r <= len && (r >= 1 || len == 0));
  return r; }
static void sock_common(u32 fd) {
  if (eagain_now) sends_after_eagain++;
  A07(!eagain_now, "C07: after a would-block result no further send attempt is made in the same invocation (no busy-wait)");
  A06(fd == FD, "data goes to the descriptor of this queue");
  A06(hard_error || cur < NE, "no send attempt when everything has been accepted"); }
u64 x_send(u32 fd, u8* p, u64 len, u32 fl) {
  sock_common(fd);
  if (!hard_error && cur < NE) {
    A06(!is_file[cur], "the entry being sent is the head of the not-yet-accepted stream (raw buffer)");
    A06(p == data[cur] + acc[cur], "send resumes exactly at the first byte not yet accepted: nothing skipped, duplicated or reordered");
    A06(len == size_[cur] - acc[cur], "send offers exactly the not-yet-accepted rest of the buffer");
    A06(fl == flags_[cur], "send flags of the entry are preserved"); }
  u64 r = sock_result(len);
  if (r != (u64)-1 && !hard_error && cur < NE) { acc[cur] += r; if (acc[cur] >= size_[cur]) cur++; }
  return r; }
u64 x_sendfile(u32 fd, u32 file, u8* off, u64 len) {
  sock_common(fd);
  if (!hard_error && cur < NE) {
    A06(is_file[cur] && file == 100u + (u32)cur, "the entry being sent is the head of the not-yet-accepted stream (file)");
    A06(*(u64*)off == acc[cur], "sendfile resumes exactly at the first byte not yet accepted: nothing skipped, duplicated or reordered");
    A06(len == size_[cur] - acc[cur], "sendfile offers exactly the not-yet-accepted rest of the file"); }
  u64 r = sock_result(len);
  if (r != (u64)-1 && !hard_error && cur < NE) { acc[cur] += r; *(u64*)off += r; if (acc[cur] >= size_[cur]) cur++; }
  return r; }
u32 x_close(u32 fd) {
  int i = (int)fd - 100; A06(i >= 0 && i < NE && is_file[i < 0 || i >= NE ? 0 : i], "only file descriptors of file entries are closed");
  if (i >= 0 && i < NE) { closed[i]++; A06(closed[i] <= 1, "a file is closed at most once"); A06(hard_error || acc[i] == size_[i], "a file is closed only after it has been sent completely"); }
  return 0; }

static int ne;
static void check_queue_shape(const char* unused) {
  (void)unused;
  /* the queue holds exactly the entries cur..ne-1 in order, the head carrying its resume offset */
  if (hard_error) return;
  if (cur == ne) { A06(!presentA || dq_head == dq_tail, "queue is empty when everything was accepted"); return; }
  A06(presentA && dq_tail - dq_head == ne - cur, "the queue holds exactly the entries that are not completely accepted");
  for (int j = 0; j < NE; j++) if (j < ne - cur && dq_head + j < DQCAP) {
    u8* e = slot[dq_head + j]; int i = cur + j;
    A06(*(u8**)(e + OFF_WriteEntry_deferred + OFF_Deferred_resolver) == cores[i] && *(u8**)(e + OFF_WriteEntry_deferred + OFF_Deferred_rejection) == cores[i], "queue order is preserved and each entry keeps its own promise");
    u8* b = e + OFF_WriteEntry_buffer;
    A06(*(u64*)(b + OFF_BufferHolder_size) == size_[i], "entry keeps the buffer's full size");
    A06(*(u64*)(b + OFF_BufferHolder_offset) == (j == 0 ? acc[i] : 0), "the head entry resumes at the number of bytes accepted so far");
    A06(*(u32*)(b + OFF_BufferHolder_type) == (is_file[i] ? 1u : 0u), "entry keeps its kind");
    if (is_file[i]) A06(*(u32*)(b + OFF_BufferHolder_fd) == 100u + (u32)i, "entry keeps its file descriptor");
    else A06(GS(b + OFF_BufferHolder_raw + OFF_RawBuffer_data)->p == data[i] && *(u64*)(b + OFF_BufferHolder_raw + OFF_RawBuffer_length) == size_[i], "entry keeps its buffer");
    A06(*(u32*)(e + OFF_WriteEntry_flags) == flags_[i] && *(u32*)(e + OFF_WriteEntry_peerFd) == FD, "entry keeps its send flags and peer descriptor"); }
}

int main(void) {
  __ir_init_globals();
  nodeA.first = FD; nodeB.first = OTHERFD;
  ne = NE;   /* one query per queue length */
  for (int i = 0; i < NE; i++) if (i < ne) {
    VP_IN(u8, sz, "size"); __CPROVER_assume(sz <= SZ); size_[i] = sz;
    VP_IN(u8, fk, "isfile"); __CPROVER_assume(fk <= 1); is_file[i] = fk;
    VP_IN(u32, fl, "flags"); flags_[i] = fl;
    u64 off = 0;
    if (i == 0) { VP_IN(u8, o, "offset"); __CPROVER_assume(o == 0 || o < sz); off = o; }
    acc[i] = off;
    data[i] = (u8*)malloc(SZ ? SZ : 1); __CPROVER_assume(data[i] != 0);
    u8* e = (u8*)malloc(SIZEOF_WriteEntry); __CPROVER_assume(e != 0);
    memset(e, 0, SIZEOF_WriteEntry);
    *(u8**)(e + OFF_WriteEntry_deferred + OFF_Deferred_resolver) = cores[i]; *(u8**)(e + OFF_WriteEntry_deferred + OFF_Deferred_rejection) = cores[i];
    u8* b = e + OFF_WriteEntry_buffer;
    GS(b + OFF_BufferHolder_raw + OFF_RawBuffer_data)->p = fk ? (u8*)"" : data[i]; GS(b + OFF_BufferHolder_raw + OFF_RawBuffer_data)->len = fk ? 0 : sz;
    *(u64*)(b + OFF_BufferHolder_raw + OFF_RawBuffer_length) = fk ? 0 : sz;
    *(u32*)(b + OFF_BufferHolder_fd) = fk ? 100u + (u32)i : (u32)-1; *(u64*)(b + OFF_BufferHolder_size) = sz; *(u64*)(b + OFF_BufferHolder_offset) = off;
    *(u32*)(b + OFF_BufferHolder_type) = fk; *(u32*)(e + OFF_WriteEntry_flags) = fl; *(u32*)(e + OFF_WriteEntry_peerFd) = FD;
    slot[dq_tail++] = e; }
  for (int i = ne; i < NE; i++) { size_[i] = 0; acc[i] = 0; }
  cur = 0;
  int armed = 1;   /* the first invocation comes from handleWriteQueue, later ones need write interest to be armed */
  for (int call = 0; call < CALLS; call++) {
    if (!armed || hard_error) break;
    if (call == CALLS - 1) nofault = 1;       /* last invocation: the peer keeps reading */
    eagain_now = 0; int rw0 = modify_rw, r0 = modify_r;
    _ZN8Pistache3Tcp9Transport14asyncWriteImplEi(transport, FD);
    A07(!vp_take_exception(), "asyncWriteImpl does not throw");
    A07(!held, "C07: asyncWriteImpl returns with toWriteLock released");
    A07(!touchedB, "C07: queues of other descriptors are not touched");
    A06(modify_other == 0, "interest is only ever set to Read or Read|Write");
    if (!hard_error) {
      check_queue_shape("");
      if (eagain_now) {
        A07(modify_rw == rw0 + 1, "C07: after a would-block result write interest is armed exactly once");
        A06(modify_r == r0, "write interest is not dropped while data is pending");
        A06(cur < ne, "would-block leaves something pending");
        armed = 1;
      } else {
        A06(cur == ne, "without a would-block result the invocation drains the whole queue");
        A06(modify_r == r0 + 1 && modify_rw == rw0, "write interest is dropped exactly when the queue is drained");
        A06(!presentA, "the drained queue is removed");
        armed = 0; }
      for (int i = 0; i < NE; i++) if (i < ne) {
        A06(resolved_[i] == (i < cur), "a promise is fulfilled as soon as, and only when, its last byte was accepted");
        A06(!rejected_[i], "no promise is rejected without a socket error");
        if (is_file[i]) A06(closed[i] == (i < cur), "a completely sent file is closed once"); }
    }
  }
#ifndef HARD_ERRORS
  A07(cur == ne && !armed, "when the peer keeps reading, every pending write is delivered and fulfilled");
#endif
  for (int i = 0; i < NE; i++) A06(settled[i] <= 1, "each promise is settled at most once (final)");
  VP_END("witness: end of harness reached");
  return 0;
}
