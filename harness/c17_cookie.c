/* C17: cookies (src/common/cookie.cc, sel mode, ghost strings/optional/map/ostream; StreamCursor primitives = contract stubs proven by C03).
 *   H_JAR:  CookieJar::addFromRaw on EVERY text of exactly NN bytes in an exact-size heap block: no access outside the block,
 *           termination, only std::runtime_error escapes; the (name,value) ranges handed to CookieJar::add equal those of a
 *           reference splitter (split at ';', skip blanks, split each pair at its first '=') whenever the reference accepts
 *           the text; a text whose last pair has no '=' is rejected.
 *   H_SAFE: Cookie::fromRaw on EVERY text of exactly NN bytes (exact-size block): memory safety, termination, only
 *           std::runtime_error / std::invalid_argument escape; name = bytes before the first '=', value = bytes up to the
 *           first ';' after it; a text without '=' is rejected.
 *   H_RT:   write -> parse round trip: a cookie with symbolic name/value (cookie octets), and the attribute set selected by
 *           ATTRS (bit0 Path, 1 Domain, 2 Max-Age, 3 Secure, 4 HttpOnly, 5 one extension, 6 a second extension) with symbolic
 *           contents is written by the real Cookie::write into a ghost ostream; the real Cookie::fromRaw parses the written
 *           text; every field must come back equal.  Max-Age is chosen through its decimal digits (<= MADIG symbolic digits,
 *           or the constant INT_MAX), the ostream model prints exactly those digits (num_put is libstdc++'s, outside).       */
#include "vp.h"
#include "libc.h"
#include "ghost_more.h"
#include "cursor_contract.h"
#include "offsets.h"
#ifndef NN
#define NN 8
#endif
void _ZN8Pistache4Http6Cookie7fromRawEPKcm(u8*, u8*, u64);
void _ZN8Pistache4Http9CookieJar10addFromRawEPKcm(u8*, u8*, u64);
void _ZNK8Pistache4Http6Cookie5writeERSo(u8*, u8*);
/* ------------------------------------------------------------------ environment */
void _ZNSt6localeC1Ev(u8* l) { (void)l; }
void _ZNSt6localeD1Ev(u8* l) { (void)l; }
void _ZNSt15basic_streambufIcSt11char_traitsIcEED2Ev(u8* s) { (void)s; }
void _ZNSt15basic_streambufIcSt11char_traitsIcEE5imbueERKSt6locale(u8* s, u8* l) { (void)s; (void)l; }
u8* _ZNSt15basic_streambufIcSt11char_traitsIcEE6setbufEPcl(u8* s, u8* p, u64 n) { (void)p; (void)n; return s; }
u64 _ZNSt15basic_streambufIcSt11char_traitsIcEE6xsgetnEPcl(u8* s, u8* p, u64 n) { (void)s; (void)p; (void)n; __CPROVER_assert(0, "xsgetn not used by the cursor"); return 0; }
u64 _ZNSt15basic_streambufIcSt11char_traitsIcEE6xsputnEPKcl(u8* s, u8* p, u64 n) { (void)s; (void)p; (void)n; __CPROVER_assert(0, "xsputn not used by the cursor"); return 0; }
agg16_8 _ZNSt15basic_streambufIcSt11char_traitsIcEE7seekoffElSt12_Ios_SeekdirSt13_Ios_Openmode(u8* s, u64 o, u32 d, u32 m) { (void)s; (void)o; (void)d; (void)m; agg16_8 r = { { 0 } }; __CPROVER_assert(0, "seekoff not used"); return r; }
agg16_8 _ZNSt15basic_streambufIcSt11char_traitsIcEE7seekposESt4fposI11__mbstate_tESt13_Ios_Openmode(u8* s, u64 a, u64 b, u32 m) { (void)s; (void)a; (void)b; (void)m; agg16_8 r = { { 0 } }; __CPROVER_assert(0, "seekpos not used"); return r; }
/* Expires goes through FullDate (Hinnant date + iostreams): outside the claim; an arbitrary date / arbitrary rejection */
u64 nondet_u64(void); u8 nondet_u8(void);
static u8 date_rejects;
u64 _ZN8Pistache4Http8FullDate10fromStringERKNSt7__cxx1112basic_stringIcSt11char_traitsIcESaIcEEE(u8* s) {
  (void)s; if (date_rejects) { vp_throw_std(_ZTISt13runtime_error); return 0; } return nondet_u64(); }
void _ZNK8Pistache4Http8FullDate5writeERSoNS1_4TypeE(u8* d, u8* os, u32 t) { (void)d; (void)os; (void)t; __CPROVER_assert(0, "Expires is not written in these harnesses"); }
void _ZNSt8optionalIN8Pistache4Http8FullDateEEC2Ev(u8* o) { *(u64*)o = 0; o[8] = 0; }
u8 _ZNKSt8optionalIN8Pistache4Http8FullDateEE9has_valueEv(u8* o) { return o[8]; }
u8* _ZNKSt19_Optional_base_implIN8Pistache4Http8FullDateESt14_Optional_baseIS2_Lb1ELb1EEE6_M_getEv(u8* o) { return o; }
u8* _ZNSt8optionalIN8Pistache4Http8FullDateEEaSIS2_EENSt9enable_ifIX7__and_vISt6__not_ISt7is_sameIS3_NSt9remove_cvINSt16remove_referenceIT_E4typeEE4typeEEES6_ISt6__and_IJSt9is_scalarIS2_ES7_IS2_NSt5decayISA_E4typeEEEEESt16is_constructibleIS2_JSA_EESt13is_assignableIRS2_SA_EEERS3_E4typeEOSA_(u8* o, u8* v) { *(u64*)o = *(u64*)v; o[8] = 1; return o; }

/* Max-Age printing: the harness fixes the digits; the value handed to operator<<(int) must be their value */
static u8 ma_dig[12]; static u64 ma_nd; static u32 ma_val;
u8* _ZNSolsEi(u8* os, u32 v) { __CPROVER_assert(v == ma_val, "the Max-Age value written is the cookie's"); gos_put((gos_t*)os, ma_dig, ma_nd, 10); return os; }

/* ------------------------------------------------------------------ CookieJar::add recording stub (H_JAR) */
#define MAXP 6
typedef struct { u64 no, nl, vo, vl; } pair_t;
static u8* base; static pair_t got[MAXP]; static int ngot;
void _ZN8Pistache4Http9CookieJar3addERKNS0_6CookieE(u8* jar, u8* c) {
  (void)jar; gstr_t* nm = GS(c + OFF_Cookie_name); gstr_t* va = GS(c + OFF_Cookie_value);
  if (ngot < MAXP) { got[ngot].no = nm->len ? (u64)(nm->p - base) : 0; got[ngot].nl = nm->len; got[ngot].vo = va->len ? (u64)(va->p - base) : 0; got[ngot].vl = va->len; }
  ngot++; }
/* the jar's unordered_maps are only reached through CookieJar::add, which is the recording stub above */

static int is_blank(u8 c) { return c == ' ' || c == '\t'; }
static u8 cookie_obj[SIZEOF_Cookie] __attribute__((aligned(8)));
static gos_t os;

int main(void) {
  __ir_init_globals();
#if defined(H_JAR) || defined(H_SAFE)
  u8* b = (u8*)malloc(NN); __CPROVER_assume(b != 0);
  for (u64 i = 0; i < NN; i++) { VP_SET(u8, b[i], "b"); }
#ifdef PREFIX
  { const char* pf = PREFIX; u64 pl = 0; for (u64 i = 0; i < NN && pf[i]; i++) { b[i] = (u8)pf[i]; pl = i + 1; }   /* fixed leading text, the rest is arbitrary but holds no further ';' (one attribute) */
    for (u64 i = 0; i < NN; i++) if (i >= pl) __CPROVER_assume(b[i] != ';'); }
#endif
  base = b;
#endif
#if defined(H_JAR)
  static u8 jar[64];
  _ZN8Pistache4Http9CookieJar10addFromRawEPKcm(jar, b, NN);
  int thr = vp_take_exception();
  if (thr) __CPROVER_assert(vp_exc_is(_ZTISt13runtime_error), "malformed Cookie header text is rejected with std::runtime_error");
  /* reference splitter */
  pair_t want[MAXP]; int nw = 0; int ok = 1; u64 pos = 0; int last_no_eq = 0;
  for (int it = 0; it < NN + 1; it++) if (pos < NN && ok) {
    u64 se = NN; for (u64 i = NN; i > 0; i--) { u64 j = i - 1; if (j >= pos && b[j] == ';') se = j; }
    u64 eq = se; for (u64 i = NN; i > 0; i--) { u64 j = i - 1; if (j >= pos && j < se && b[j] == '=') eq = j; }
    if (eq == se) { ok = 0; int later = 0; for (u64 j = 0; j < NN; j++) if (j >= pos && b[j] == '=') later = 1; last_no_eq = !later; }
    else { if (nw < MAXP) { want[nw].no = pos; want[nw].nl = eq - pos; want[nw].vo = eq + 1; want[nw].vl = se - eq - 1; } nw++;
           pos = se < NN ? se + 1 : NN;
           for (u64 i = 0; i < NN; i++) if (pos < NN && is_blank(b[pos])) pos++; } }
  if (ok) {
    __CPROVER_assert(!thr, "a well-formed list of name=value pairs is accepted");
    __CPROVER_assert(ngot == nw, "the jar receives exactly as many cookies as the text lists pairs");
    for (int i = 0; i < MAXP; i++) if (i < nw && i < ngot) {
      __CPROVER_assert(got[i].nl == want[i].nl && (want[i].nl == 0 || got[i].no == want[i].no), "cookie name is exactly the text before the pair's first '='");
      __CPROVER_assert(got[i].vl == want[i].vl && (want[i].vl == 0 || got[i].vo == want[i].vo), "cookie value is exactly the text between '=' and the next ';'"); }
  } else if (last_no_eq) __CPROVER_assert(thr, "text whose remaining part has no '=' is rejected");
#elif defined(H_SAFE)
  VP_SET(u8, date_rejects, "date_rejects");
  _ZN8Pistache4Http6Cookie7fromRawEPKcm(cookie_obj, b, NN);
  int thr = vp_take_exception();
#ifdef DEBUGX
  __CPROVER_assert(thr, "DEBUG: always throws");
#endif
  if (thr) __CPROVER_assert(vp_exc_is(_ZTISt13runtime_error) || vp_exc_is(_ZTISt16invalid_argument), "malformed cookie text is rejected with runtime_error / invalid_argument, nothing else");
  u64 eq = NN; for (u64 i = NN; i > 0; i--) if (b[i - 1] == '=') eq = i - 1;
  if (eq == NN) __CPROVER_assert(thr, "cookie text without '=' is rejected");
  if (!thr) {
    u64 se = NN; for (u64 i = NN; i > 0; i--) { u64 j = i - 1; if (j > eq && b[j] == ';') se = j; }
    gstr_t* nm = GS(cookie_obj + OFF_Cookie_name); gstr_t* va = GS(cookie_obj + OFF_Cookie_value);
    __CPROVER_assert(nm->len == eq && (eq == 0 || nm->p == b), "name is the text before the first '='");
    __CPROVER_assert(va->len == se - eq - 1 && (va->len == 0 || va->p == b + eq + 1), "value is the text between the first '=' and the next ';'");
    u8* ma = cookie_obj + OFF_Cookie_maxAge; if (ma[4]) __CPROVER_assert((i32)*(u32*)ma >= 0, "a parsed Max-Age is a non-negative int (no overflow)");
  }
#elif defined(H_RT)
#ifndef ATTRS
#define ATTRS 0
#endif
#ifndef MADIG
#define MADIG 3
#endif
#define SL 2   /* maximal length of each symbolic string */
  /* symbolic source strings */
  static u8 s_name[SL], s_val[SL], s_path[SL], s_dom[SL], s_ek[SL], s_ev[SL], s_ek2[SL], s_ev2[SL];
  u64 l_name, l_val, l_path, l_dom, l_ek, l_ev, l_ek2, l_ev2;
#define SYMSTR(arr, ln_, nm, minlen) VP_SET(u64, ln_, nm "_len"); __CPROVER_assume(ln_ >= (minlen) && ln_ <= SL); for (int i_ = 0; i_ < SL; i_++) { VP_SET(u8, arr[i_], nm); }
  SYMSTR(s_name, l_name, "name", 1) SYMSTR(s_val, l_val, "val", 0) SYMSTR(s_path, l_path, "path", 0) SYMSTR(s_dom, l_dom, "dom", 0)
  SYMSTR(s_ek, l_ek, "ek", 1) SYMSTR(s_ev, l_ev, "ev", 0) SYMSTR(s_ek2, l_ek2, "ek2", 1) SYMSTR(s_ev2, l_ev2, "ev2", 0)
  /* cookie octets (RFC 6265): token characters for names (no separators, no blanks, no controls), no ';' / controls / blanks in values */
#define TOKCH(c) ((c) > 32 && (c) < 127 && (c) != '=' && (c) != ';' && (c) != ',' && (c) != '"')
#define VALCH(c) ((c) > 32 && (c) < 127 && (c) != ';' && (c) != ',' && (c) != '"')
  for (int i = 0; i < SL; i++) { __CPROVER_assume(TOKCH(s_name[i]) && TOKCH(s_ek[i]) && TOKCH(s_ek2[i])); __CPROVER_assume(VALCH(s_val[i]) && VALCH(s_path[i]) && VALCH(s_dom[i]) && VALCH(s_ev[i]) && VALCH(s_ev2[i])); }
  /* two extensions are stored by std::map in key order; distinct keys, sorted */
  if (ATTRS & 64) { int lt = 0, gt = 0; for (int i = 0; i < SL; i++) { u8 x = i < (int)l_ek ? s_ek[i] : 0, y = i < (int)l_ek2 ? s_ek2[i] : 0; if (!lt && !gt) { if (x < y) lt = 1; else if (x > y) gt = 1; } } __CPROVER_assume(lt); }
  /* Max-Age digits */
  if (ATTRS & 4) {
#ifdef MA_INTMAX
    const char* d = "2147483647"; ma_nd = 10; for (int i = 0; i < 10; i++) ma_dig[i] = (u8)d[i]; ma_val = 2147483647u;
#else
    VP_SET(u64, ma_nd, "ma_nd"); __CPROVER_assume(ma_nd >= 1 && ma_nd <= MADIG); ma_val = 0;
    for (int i = 0; i < MADIG; i++) { VP_SET(u8, ma_dig[i], "ma_dig"); __CPROVER_assume(ma_dig[i] >= '0' && ma_dig[i] <= '9'); if (i < (int)ma_nd) ma_val = ma_val * 10 + (ma_dig[i] - '0'); }
    __CPROVER_assume(ma_nd == 1 || ma_dig[0] != '0');
#endif
  }
  /* build the cookie to be written */
  static u8 src[SIZEOF_Cookie] __attribute__((aligned(8)));
#define SETS(off, arr, ln_) do { GS(src + (off))->p = arr; GS(src + (off))->len = ln_; } while (0)
  SETS(OFF_Cookie_name, s_name, l_name); SETS(OFF_Cookie_value, s_val, l_val);
  SETS(OFF_Cookie_path, s_path, l_path); OS_ENG(src + OFF_Cookie_path) = (ATTRS & 1) != 0;
  SETS(OFF_Cookie_domain, s_dom, l_dom); OS_ENG(src + OFF_Cookie_domain) = (ATTRS & 2) != 0;
  *(u32*)(src + OFF_Cookie_maxAge) = ma_val; src[OFF_Cookie_maxAge + 4] = (ATTRS & 4) != 0;
  src[OFF_Cookie_expires + 8] = 0;
  src[OFF_Cookie_secure] = (ATTRS & 8) != 0; src[OFF_Cookie_httpOnly] = (ATTRS & 16) != 0;
  gmap_new(src + OFF_Cookie_ext); gmap_t* sm = GM(src + OFF_Cookie_ext);
  if (ATTRS & 32) { sm->e[0].k.p = s_ek; sm->e[0].k.len = l_ek; sm->e[0].v.p = s_ev; sm->e[0].v.len = l_ev; sm->n = 1; }
  if (ATTRS & 64) { sm->e[1].k.p = s_ek2; sm->e[1].k.len = l_ek2; sm->e[1].v.p = s_ev2; sm->e[1].v.len = l_ev2; sm->n = 2; }
  gos_init(&os, VP_OSMAX);
  _ZNK8Pistache4Http6Cookie5writeERSo(src, (u8*)&os);
  __CPROVER_assert(!vp_take_exception() && !os.failed, "write does not fail");
  VP_OBS("written_len", os.len);
  /* parse the written text */
  _ZN8Pistache4Http6Cookie7fromRawEPKcm(cookie_obj, os.log, os.len);
  int thr = vp_take_exception();
  __CPROVER_assert(!thr, "the written cookie text is accepted by the parser");
  if (!thr) {
    u8* c = cookie_obj;
#define EQS(off, arr, ln_, msg) __CPROVER_assert(GS(c + (off))->len == (ln_), msg " (length)"); for (int i_ = 0; i_ < SL; i_++) if (i_ < (int)(ln_) && GS(c + (off))->len == (ln_)) __CPROVER_assert(GS(c + (off))->p[i_] == arr[i_], msg " (bytes)");
    EQS(OFF_Cookie_name, s_name, l_name, "round trip: name") EQS(OFF_Cookie_value, s_val, l_val, "round trip: value")
    __CPROVER_assert(OS_ENG(c + OFF_Cookie_path) == ((ATTRS & 1) != 0), "round trip: Path present iff set");
    if (ATTRS & 1) { EQS(OFF_Cookie_path, s_path, l_path, "round trip: Path") }
    __CPROVER_assert(OS_ENG(c + OFF_Cookie_domain) == ((ATTRS & 2) != 0), "round trip: Domain present iff set");
    if (ATTRS & 2) { EQS(OFF_Cookie_domain, s_dom, l_dom, "round trip: Domain") }
    __CPROVER_assert(c[OFF_Cookie_maxAge + 4] == ((ATTRS & 4) != 0), "round trip: Max-Age present iff set");
    if (ATTRS & 4) __CPROVER_assert(*(u32*)(c + OFF_Cookie_maxAge) == ma_val, "round trip: Max-Age value");
    __CPROVER_assert(c[OFF_Cookie_expires + 8] == 0, "round trip: no Expires appears");
    __CPROVER_assert(c[OFF_Cookie_secure] == ((ATTRS & 8) != 0), "round trip: Secure");
    __CPROVER_assert(c[OFF_Cookie_httpOnly] == ((ATTRS & 16) != 0), "round trip: HttpOnly");
    gmap_t* pm = GM(c + OFF_Cookie_ext);
    __CPROVER_assert(pm->n == ((ATTRS & 32) ? ((ATTRS & 64) ? 2 : 1) : 0), "round trip: number of extension attributes");
    if ((ATTRS & 32) && pm->n >= 1) {
      __CPROVER_assert(pm->e[0].k.len == l_ek && pm->e[0].v.len == l_ev, "round trip: extension name/value lengths");
      for (int i = 0; i < SL; i++) { if (i < (int)l_ek && pm->e[0].k.len == l_ek) __CPROVER_assert(pm->e[0].k.p[i] == s_ek[i], "round trip: extension name"); if (i < (int)l_ev && pm->e[0].v.len == l_ev) __CPROVER_assert(pm->e[0].v.p[i] == s_ev[i], "round trip: extension value"); } }
    if ((ATTRS & 64) && pm->n >= 2) {
      __CPROVER_assert(pm->e[1].k.len == l_ek2 && pm->e[1].v.len == l_ev2, "round trip: second extension name/value lengths");
      for (int i = 0; i < SL; i++) { if (i < (int)l_ek2 && pm->e[1].k.len == l_ek2) __CPROVER_assert(pm->e[1].k.p[i] == s_ek2[i], "round trip: second extension name"); if (i < (int)l_ev2 && pm->e[1].v.len == l_ev2) __CPROVER_assert(pm->e[1].v.p[i] == s_ev2[i], "round trip: second extension value"); } }
  }
#endif
  VP_END("witness: end of harness reached");
  return 0;
}
