// Member offsets / sizes of the routing classes (see offsets_http.cc).
#include <sstream>
#include <iostream>
#include <memory>
#include <string>
#include <vector>
#include <unordered_map>
#include <map>
#include <tuple>
#include <regex>
#include <functional>
#define private public
#define protected public
#include <pistache/router.h>
#include <cstdio>
#include <cstddef>
#pragma GCC diagnostic ignored "-Winvalid-offsetof"
using namespace Pistache;
using namespace Pistache::Rest;
#define O(name, T, m) printf("#define OFF_%s %zu\n", #name, offsetof(T, m))
#define S(name, T) printf("#define SIZEOF_%s %zu\n", #name, sizeof(T))
int main() {
  O(Node_fixed, SegmentTreeNode, fixed_); O(Node_param, SegmentTreeNode, param_); O(Node_optional, SegmentTreeNode, optional_);
  O(Node_splat, SegmentTreeNode, splat_); O(Node_route, SegmentTreeNode, route_); S(Node, SegmentTreeNode);
  O(TypedParam_name, TypedParam, name_); O(TypedParam_value, TypedParam, value_); S(TypedParam, TypedParam);
  typedef std::tuple<std::shared_ptr<Route>, std::vector<TypedParam>, std::vector<TypedParam>> R;
  alignas(R) static char buf[sizeof(R)]; R* r = reinterpret_cast<R*>(buf);
  printf("#define OFF_FindResult_route %zu\n#define OFF_FindResult_params %zu\n#define OFF_FindResult_splats %zu\n#define SIZEOF_FindResult %zu\n",
         (size_t)((char*)&std::get<0>(*r) - buf), (size_t)((char*)&std::get<1>(*r) - buf), (size_t)((char*)&std::get<2>(*r) - buf), sizeof(R));
  typedef std::pair<const std::string_view, std::shared_ptr<SegmentTreeNode>> E;
  printf("#define SIZEOF_NodeMapEntry %zu\n#define OFF_NodeMapEntry_second %zu\n", sizeof(E), offsetof(E, second));
  typedef std::unordered_map<std::string_view, std::shared_ptr<SegmentTreeNode>> NM; S(NodeMap, NM);
  S(StringView, std::string_view);
  O(Router_routes, Router, routes); O(Router_customHandlers, Router, customHandlers); O(Router_middlewares, Router, middlewares); O(Router_notFoundHandler, Router, notFoundHandler); S(Router, Router);
  typedef std::pair<const Http::Method, SegmentTreeNode> ME; printf("#define SIZEOF_MethodEntry %zu\n#define OFF_MethodEntry_node %zu\n", sizeof(ME), offsetof(ME, second));
  S(RouteHandler, Route::Handler); S(RouteMiddleware, Route::Middleware);
  printf("#define VP_STATUS_MATCH %d\n#define VP_STATUS_NOTFOUND %d\n#define VP_STATUS_NOTALLOWED %d\n#define VP_RESULT_OK %d\n#define VP_CODE_NOT_FOUND %d\n", (int)Route::Status::Match, (int)Route::Status::NotFound, (int)Route::Status::NotAllowed, (int)Route::Result::Ok, (int)Http::Code::Not_Found);
  return 0;
}
