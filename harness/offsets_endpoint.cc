// Offsets of TransportImpl (a class private to src/server/endpoint.cc) and the step ids checkIdlePeers compares against.
#include <sstream>
#include <iostream>
#include <memory>
#include <string>
#include <vector>
#include <unordered_map>
#include <map>
#include <deque>
#include <array>
#include <mutex>
#include <atomic>
#include <chrono>
#include <functional>
#include <thread>
#include <condition_variable>
#include <future>
#include <optional>
#include <tuple>
#include <set>
#include <algorithm>
#include <regex>
#include <list>
#include <typeindex>
#include <iomanip>
#include <bitset>
#include <type_traits>
#include <stdexcept>
#include <limits>
#include <cstring>
#define private public
#define protected public
#include <../src/server/endpoint.cc>
#include <cstdio>
#include <cstddef>
#pragma GCC diagnostic ignored "-Winvalid-offsetof"
using namespace Pistache;
using namespace Pistache::Http;
#define O(name, T, m) printf("#define OFF_%s %zu\n", #name, offsetof(T, m))
int main() {
  O(TransportImpl_headerTimeout, TransportImpl, headerTimeout_); O(TransportImpl_bodyTimeout, TransportImpl, bodyTimeout_); O(TransportImpl_handler, TransportImpl, handler_);
  O(Transport_peers, Tcp::Transport, peers);
  printf("#define SIZEOF_TransportImpl %zu\n", sizeof(TransportImpl));
  printf("#define STEPID_RequestLine %lluULL\n#define STEPID_Headers %lluULL\n#define STEPID_Body %lluULL\n", (unsigned long long)Private::RequestLineStep::Id, (unsigned long long)Private::HeadersStep::Id, (unsigned long long)Private::BodyStep::Id);
  printf("#define VP_HTTP11 %d\n", (int)Http::Version::Http11);
  return 0;
}
