// C11 kernels: instantiates the all-of / any-of policy functions of include/pistache/async.h for two and three int inputs and
// for void inputs, with a Data type that mirrors the local struct of Impl::When::whenArgs (policy data + results tuple).
#include <pistache/async.h>
using namespace Pistache::Async;
struct AllData2 : Impl::All::Data { AllData2(size_t n, Resolver r, Rejection j) : Impl::All::Data(n, std::move(r), std::move(j)) {} std::tuple<int, int> results; };
struct AllData3 : Impl::All::Data { AllData3(size_t n, Resolver r, Rejection j) : Impl::All::Data(n, std::move(r), std::move(j)) {} std::tuple<int, int, int> results; };
struct AnyData : Impl::Any::Data { AnyData(size_t n, Resolver r, Rejection j) : Impl::Any::Data(n, std::move(r), std::move(j)) {} };
#include <new>
extern "C" {
// the policy data is built by its REAL constructor (the harness does not depend on which bookkeeping members it has)
void c11_all2_init(void* mem, Resolver* r, Rejection* j) { new (mem) AllData2(2, std::move(*r), std::move(*j)); }
void c11_all3_init(void* mem, Resolver* r, Rejection* j) { new (mem) AllData3(3, std::move(*r), std::move(*j)); }
void c11_any_init(void* mem, size_t n, Resolver* r, Rejection* j) { new (mem) AnyData(n, std::move(*r), std::move(*j)); }
void c11_all2_resolve0(const int& v, std::shared_ptr<AllData2>& d) { Impl::All::resolveT<0>(v, d); }
void c11_all2_resolve1(const int& v, std::shared_ptr<AllData2>& d) { Impl::All::resolveT<1>(v, d); }
void c11_all2_reject(std::exception_ptr e, std::shared_ptr<AllData2>& d) { Impl::All::reject(std::move(e), d); }
void c11_all3_resolve0(const int& v, std::shared_ptr<AllData3>& d) { Impl::All::resolveT<0>(v, d); }
void c11_all3_resolve1(const int& v, std::shared_ptr<AllData3>& d) { Impl::All::resolveT<1>(v, d); }
void c11_all3_resolve2(const int& v, std::shared_ptr<AllData3>& d) { Impl::All::resolveT<2>(v, d); }
void c11_all3_resolvevoid(std::shared_ptr<AllData3>& d) { Impl::All::resolveVoid(d); }
void c11_all3_reject(std::exception_ptr e, std::shared_ptr<AllData3>& d) { Impl::All::reject(std::move(e), d); }
void c11_any_resolve(const int& v, std::shared_ptr<AnyData>& d) { Impl::Any::resolveT<0>(v, d); }
void c11_any_resolvevoid(std::shared_ptr<AnyData>& d) { Impl::Any::resolveVoid(d); }
void c11_any_reject(std::exception_ptr e, std::shared_ptr<AnyData>& d) { Impl::Any::reject(std::move(e), d); }
}
