/* C05(b'''): the ResponseStream insertion operator (template in include/pistache/http.h, instantiated by harness/w_c05_ins.cc,
 * sel mode): `stream << value` is one chunk.  Same ghost ostream as c05_stream.c (insertions are TOKENS with byte lengths over
 * one byte counter with a SYMBOLIC capacity); the model of numeric insertion gives a number the length std::ostream writes it
 * with: decimal digits plus sign, or -- while std::hex is in force on THAT ostream -- the hex digits of its two's complement.
 * Asserted for every value of the type: the chunk-size line announces exactly the number of bytes the value is written with, the
 * value itself is written in decimal (std::hex is for the size line only), an empty text emits nothing (a zero-size chunk is the
 * end of the body), and the operator throws iff some piece did not fit into the maximum response size.                        */
#include "vp.h"
#include "libc.h"
#include "ghost.h"
#include "offsets.h"
void c05_ins_int(u8*, u8*); void c05_ins_uint(u8*, u8*); void c05_ins_short(u8*, u8*); void c05_ins_long(u8*, u8*); void c05_ins_cstr(u8*, u8*); void c05_ins_u8(u8*, u8*); void c05_ins_bool(u8*, u8*); void c05_ins_arr(u8*, u8*);
u8 _ZTVSo[96] __attribute__((aligned(8)));
enum { T_STR = 1, T_WRITE, T_NUM, T_CHAR };
typedef struct { u32 kind; u32 cut; u64 a; u32 hex; u32 sgn; u64 n; } tok_t;
#define MAXTOK 8
static tok_t toks[MAXTOK]; static int ntok; static u64 total, cap; static int any_cut;
#define NOS 2
static u8* os_ios[NOS]; static int os_failed[NOS], os_hex[NOS]; static int nos; static u8* the_buf;
static int os_of_ios(u8* ios) { for (int i = 0; i < NOS; i++) if (i < nos && os_ios[i] == ios) return i; __CPROVER_assert(0, "ostream object known to the model"); return 0; }
void _ZNSt9basic_iosIcSt11char_traitsIcEEC2Ev(u8* ios) { (void)ios; }
void _ZNSt9basic_iosIcSt11char_traitsIcEED2Ev(u8* ios) { (void)ios; }
void _ZNSt9basic_iosIcSt11char_traitsIcEE4initEPSt15basic_streambufIcS1_E(u8* ios, u8* sb) { __CPROVER_assert(sb == the_buf && nos < NOS, "ostream over the stream's buffer (harness bound on their number)"); os_ios[nos] = ios; os_failed[nos] = 0; os_hex[nos] = 0; nos++; }
u8 _ZNKSt9basic_iosIcSt11char_traitsIcEEntEv(u8* ios) { return os_failed[os_of_ios(ios)] != 0; }
u8* _ZSt3hexRSt8ios_base(u8* b) { os_hex[os_of_ios(b)] = 1; return b; }
u8* _ZSt3decRSt8ios_base(u8* b) { os_hex[os_of_ios(b)] = 0; return b; }
static void put(u8* os, u32 kind, u64 a, u32 sgn, u64 nbytes) {
  int o = os_of_ios(os + 8); if (os_failed[o]) return;
  u64 room = cap - total; __CPROVER_assert(ntok < MAXTOK, "token log large enough (harness bound)");
  if (ntok < MAXTOK) { toks[ntok].kind = kind; toks[ntok].a = a; toks[ntok].hex = (u32)os_hex[o]; toks[ntok].sgn = sgn; toks[ntok].n = nbytes; toks[ntok].cut = nbytes > room; ntok++; }
  if (nbytes > room) { total = cap; os_failed[o] = 1; any_cut = 1; } else total += nbytes; }
static u64 lit_len(u8* p) { u64 n = 0; while (p[n]) n++; return n; }
/* how many characters std::ostream writes a number with (no width, no showbase, no grouping: the classic locale) */
static u64 declen_u(u64 v) { u64 n = 1, p = 10; for (int i = 0; i < 19; i++) { if (v >= p) n++; p *= 10; } return n; }
static u64 hexlen_u(u64 v) { u64 n = 1; for (int i = 1; i < 16; i++) if (v >> (4 * i)) n++; return n; }
static u64 numlen(int hex, int is_signed, int bits, u64 v /* sign-extended to 64 bits if signed */) {
  u64 mask = bits == 64 ? ~0ull : ((1ull << bits) - 1);
  if (hex) return hexlen_u(v & mask);
  if (is_signed && (v >> 63)) return 1 + declen_u(0 - v);
  return declen_u(v); }
static void put_num(u8* os, int is_signed, int bits, u64 v) { int o = os_of_ios(os + 8); put(os, T_NUM, v, (u32)is_signed, numlen(os_hex[o], is_signed, bits, v)); }
u8* _ZStlsISt11char_traitsIcEERSt13basic_ostreamIcT_ES5_PKc(u8* os, u8* lit) { put(os, T_STR, (u64)lit, 0, lit_len(lit)); return os; }
u8* _ZNSo5writeEPKcl(u8* os, u8* p, u64 n) { put(os, T_WRITE, (u64)p, 0, n); return os; }
u8* _ZStlsISt11char_traitsIcEERSt13basic_ostreamIcT_ES5_h(u8* os, u8 c) { put(os, T_CHAR, c, 0, 1); return os; }   /* an unsigned char is inserted as a character */
u8* _ZNSo9_M_insertIbEERSoT_(u8* os, u8 v) { put(os, T_NUM, v, 0, 1); return os; }   /* bool without boolalpha: 0 or 1 */
u8* _ZNSolsEi(u8* os, u32 v) { put_num(os, 1, 32, (u64)(long long)(int)v); return os; }
u8* _ZNSolsEs(u8* os, u16 v) { put_num(os, 1, 16, (u64)(long long)(short)v); return os; }
u8* _ZNSo9_M_insertIlEERSoT_(u8* os, u64 v) { put_num(os, 1, 64, v); return os; }
u8* _ZNSo9_M_insertImEERSoT_(u8* os, u64 v) { put_num(os, 0, 64, v); return os; }
void _ZN8Pistache5ErrorC1EPKc(u8* e, u8* m) { (void)m; VP_EXC_SETVT(e); }
void _ZN8Pistache5ErrorD1Ev(u8* e) { (void)e; }
static int is_crlf(tok_t* t) { if (t->kind == T_WRITE) return t->n == 2 && ((u8*)t->a)[0] == 13 && ((u8*)t->a)[1] == 10; return t->kind == T_STR && ((u8*)t->a)[0] == 13 && ((u8*)t->a)[1] == 10 && ((u8*)t->a)[2] == 0; }
static u8 stream[SIZEOF_ResponseStream] __attribute__((aligned(8)));
int main(void) {
  __ir_init_globals(); *(u64*)_ZTVSo = 8;
  the_buf = stream + OFF_ResponseStream_buf;
  VP_SET(u64, cap, "cap"); __CPROVER_assume(cap <= 40);
  u64 v64 = 0; int empty = 0; static u8 text[4]; static u8* textp = text;
#if TY == 1
  i32 v; VP_SET(i32, v, "value"); v64 = (u64)(long long)v; c05_ins_int(stream, (u8*)&v);
#elif TY == 2
  u32 v; VP_SET(u32, v, "value"); v64 = v; c05_ins_uint(stream, (u8*)&v);
#elif TY == 3
  i16 v; VP_SET(i16, v, "value"); v64 = (u64)(long long)v; c05_ins_short(stream, (u8*)&v);
#elif TY == 4
  i64 v; VP_SET(i64, v, "value");
#ifdef VMAX
  __CPROVER_assume(v >= -VMAX && v <= VMAX);
#endif
  v64 = (u64)v; c05_ins_long(stream, (u8*)&v);
#elif TY == 6
  u8 v; VP_SET(u8, v, "value"); v64 = v; c05_ins_u8(stream, (u8*)&v);
#elif TY == 7
  u8 v; VP_SET(u8, v, "value"); __CPROVER_assume(v <= 1); v64 = v; c05_ins_bool(stream, (u8*)&v);
#elif TY == 8   /* a character array of 4 (a literal of 3 characters): the text up to its terminator */
  for (int i = 0; i < 3; i++) { VP_SET(u8, text[i], "text"); __CPROVER_assume(text[i] != 0); } text[3] = 0; c05_ins_arr(stream, text);
#else
  for (int i = 0; i < 3; i++) VP_SET(u8, text[i], "text"); text[3] = 0; empty = text[0] == 0; c05_ins_cstr(stream, (u8*)&textp);
#endif
  int thr = vp_take_exception();
  __CPROVER_assert(thr == (any_cut != 0), "the insertion throws exactly when a piece of the chunk did not fit into the maximum response size");
  if (empty) __CPROVER_assert(!thr && ntok == 0, "an empty text emits no chunk (a zero-size chunk would end the body)");
  else if (!thr) {
    __CPROVER_assert(ntok == 4, "one chunk: size line, CRLF, data, CRLF");
    __CPROVER_assert(toks[0].kind == T_NUM && toks[0].hex == 1, "chunk header: a number, in hex");
    __CPROVER_assert(is_crlf(&toks[1]) && is_crlf(&toks[3]), "CRLF after the chunk size and after the chunk data");
#if TY <= 4
    __CPROVER_assert(toks[2].kind == T_NUM && toks[2].a == v64 && toks[2].sgn == (TY != 2), "chunk data: the inserted value");
    __CPROVER_assert(toks[2].hex == 0, "the inserted value is written in decimal (std::hex is for the chunk-size line only)");
#elif TY == 7
    __CPROVER_assert(toks[2].kind == T_NUM && toks[2].a == v64 && toks[2].n == 1, "chunk data: the inserted truth value");
#elif TY == 6
    __CPROVER_assert(toks[2].kind == T_CHAR && toks[2].a == v64, "chunk data: the inserted character");
#else
    __CPROVER_assert(toks[2].kind == T_STR && toks[2].a == (u64)text, "chunk data: the inserted text");
#endif
    __CPROVER_assert(toks[0].a == toks[2].n, "chunk header: the announced size is the number of bytes the inserted value is written with");
  }
  VP_END("witness: end of harness reached");
  return 0;
}
