/* C10(b): SegmentTreeNode::addRoute with the real getSegmentType (src/server/router.cc, sel mode) -- ONE INDUCTIVE STEP.
 * A node with 0..1 fixed, 0..1 parameter, 0..1 optional child (symbolic keys of 1..2 bytes), a splat child or not and a route or not
 * receives a pattern that is empty or starts with a symbolic segment of 1..3 bytes (':' '?' '*' included), with or without a lower
 * pattern.  The recursive call is redirected to a recording stub (induction hypothesis: the child registers the lower pattern).
 * Asserted against a reference written from the property's segment kinds: ":x" is a parameter, ":x?" an optional parameter (key
 * without the '?'), "*" a wildcard, anything else without '?' a fixed segment; a '?' elsewhere and "*x" are refused with
 * runtime_error; the matching child is reused when its key exists, otherwise exactly one new child is created in the right
 * collection under exactly the segment's key; the lower pattern (text after the first '/') goes to that child with the same
 * handler; an exhausted pattern installs the handler at this node, or is refused if the node already has one; nothing else changes. */
#include "vp.h"
#include "libc.h"
#include "ghost.h"
#include "offsets.h"
#define KMAX 3
void _ZN8Pistache4Rest15SegmentTreeNode8addRouteERKSt17basic_string_viewIcSt11char_traitsIcEERKSt8functionIFNS0_5Route6ResultENS0_7RequestENS_4Http14ResponseWriterEEERKSt10shared_ptrIcE(u8*, u8*, u8*, u8*);
#include "c10_models.h"
u8* _ZNKSt17basic_string_viewIcSt11char_traitsIcEEixEm(u8* s, u64 i) { __CPROVER_assert(i < ((sv_t*)s)->len, "string_view::operator[] inside the view"); return ((sv_t*)s)->p + i; }
/* collections: fixed_ / param_ / optional_ with capacity 2 (one existing + one new) */
static u8 node[SIZEOF_Node] __attribute__((aligned(8)));
static entry_t ent[3][2]; static u8 child[3][2][8], splat_child[8], new_nodes[2][8], route_obj[8], new_route[8];
static int n_new_nodes, n_new_routes, n_inserts[3];
u8* _ZNSt13unordered_mapISt17basic_string_viewIcSt11char_traitsIcEESt10shared_ptrIN8Pistache4Rest15SegmentTreeNodeEESt4hashIS3_ESt8equal_toIS3_ESaISt4pairIKS3_S8_EEE2atERSE_(u8* m, u8* k) {
  for (u64 i = 0; i < 2; i++) if (i < GM_(m)->n && sv_eq(&GM_(m)->e[i].key, (sv_t*)k)) return (u8*)&GM_(m)->e[i].node;
  vp_throw_std(_ZTISt12out_of_range); return 0; }
void _ZSt11make_sharedIN8Pistache4Rest15SegmentTreeNodeEJRKSt10shared_ptrIcEEES3_INSt9enable_ifIXntsr8is_arrayIT_EE5valueES8_E4typeEEDpOT0_(u8* ret, u8* ref) { (void)ref; __CPROVER_assert(n_new_nodes < 2, "at most one node is created per level"); *(u8**)ret = new_nodes[n_new_nodes]; *(u8**)(ret + 8) = 0; n_new_nodes++; }
void _ZSt11make_sharedIN8Pistache4Rest5RouteEJRKSt8functionIFNS2_6ResultENS1_7RequestENS0_4Http14ResponseWriterEEEEESt10shared_ptrINSt9enable_ifIXntsr8is_arrayIT_EE5valueESE_E4typeEEDpOT0_(u8* ret, u8* h) { (void)h; *(u8**)ret = new_route; *(u8**)(ret + 8) = 0; n_new_routes++; }
u8* _ZNSt10shared_ptrIN8Pistache4Rest15SegmentTreeNodeEEaSEOS3_(u8* d, u8* s) { *(u8**)d = *(u8**)s; *(u8**)s = 0; return d; }
void _ZNSt12__shared_ptrIN8Pistache4Rest15SegmentTreeNodeELN9__gnu_cxx12_Lock_policyE2EED2Ev(u8* s) { (void)s; }
typedef struct { sv_t key; u8* node; u8* ctrl; } pair_t;
void _ZSt9make_pairIRSt17basic_string_viewIcSt11char_traitsIcEESt10shared_ptrIN8Pistache4Rest15SegmentTreeNodeEEESt4pairINSt25__strip_reference_wrapperINSt5decayIT_E4typeEE6__typeENSB_INSC_IT0_E4typeEE6__typeEEOSD_OSI_(u8* ret, u8* sv, u8* sp) { pair_t* p = (pair_t*)ret; p->key = *(sv_t*)sv; p->node = *(u8**)sp; p->ctrl = 0; *(u8**)sp = 0; }
void _ZNSt4pairISt17basic_string_viewIcSt11char_traitsIcEESt10shared_ptrIN8Pistache4Rest15SegmentTreeNodeEEED2Ev(u8* p) { (void)p; }
static int coll_index(u8* m) { return m == node + OFF_Node_fixed ? 0 : m == node + OFF_Node_param ? 1 : 2; }
agg16_8 _ZNSt13unordered_mapISt17basic_string_viewIcSt11char_traitsIcEESt10shared_ptrIN8Pistache4Rest15SegmentTreeNodeEESt4hashIS3_ESt8equal_toIS3_ESaISt4pairIKS3_S8_EEE6insertISD_IS3_S8_EEENSt9enable_ifIXsr16is_constructibleISF_OT_EE5valueESD_INSt8__detail14_Node_iteratorISF_Lb0ELb1EEEbEE4typeESM_(u8* m, u8* pr) {
  agg16_8 r = { { 0 } }; pair_t* p = (pair_t*)pr; int c = coll_index(m);
  __CPROVER_assert(m == node + OFF_Node_fixed || m == node + OFF_Node_param || m == node + OFF_Node_optional, "a child is inserted into one of this node's collections");
  for (u64 i = 0; i < 2; i++) if (i < GM_(m)->n && sv_eq(&GM_(m)->e[i].key, &p->key)) return r;          /* insert keeps an existing key */
  __CPROVER_assert(GM_(m)->n < 2, "ghost map capacity"); GM_(m)->e[GM_(m)->n].key = p->key; GM_(m)->e[GM_(m)->n].node = p->node; GM_(m)->e[GM_(m)->n].ctrl = 0; GM_(m)->n++; n_inserts[c]++; return r; }
/* induction hypothesis: the recursive registration on the child */
static int n_rec; static u8* rec_self; static u8* rec_path_p; static u64 rec_path_len; static u8* rec_handler; static u8* rec_ref;
void vp_rec_addRoute(u8* self, u8* path, u8* handler, u8* ref) { n_rec++; rec_self = self; rec_path_p = ((sv_t*)path)->p; rec_path_len = ((sv_t*)path)->len; rec_handler = handler; rec_ref = ref; }
static u8 handler_obj[32], ref_obj[16];
int main(void) {
  __ir_init_globals();
  for (int i = 0; i < 32; i++) { VP_SET(u8, arena[i], "key"); __CPROVER_assume(arena[i] != '/'); }
  u64 n0[3]; u32 hs, hr;
  for (int c = 0; c < 3; c++) { VP_SET(u64, n0[c], "nchild"); __CPROVER_assume(n0[c] <= 1); u64 kl; VP_SET(u64, kl, "klen"); __CPROVER_assume(kl >= 1 && kl <= 2);
    u8* m = node + (c == 0 ? OFF_Node_fixed : c == 1 ? OFF_Node_param : OFF_Node_optional); GM_(m)->n = n0[c]; GM_(m)->e = ent[c];
    ent[c][0].key.p = arena + 4 * c; ent[c][0].key.len = kl; ent[c][0].node = child[c][0]; ent[c][0].ctrl = 0; }
  VP_SET(u32, hs, "has_splat"); VP_SET(u32, hr, "has_route"); __CPROVER_assume(hs <= 1 && hr <= 1);
  *(u8**)(node + OFF_Node_splat) = hs ? (u8*)splat_child : (u8*)0; *(u8**)(node + OFF_Node_route) = hr ? (u8*)route_obj : (u8*)0;
  u32 pe, hl; u64 sl, ll; VP_SET(u32, pe, "pattern_empty"); VP_SET(u32, hl, "has_lower"); VP_SET(u64, sl, "seg_len"); VP_SET(u64, ll, "lower_len");
  __CPROVER_assume(pe <= 1 && hl <= 1 && sl >= 1 && sl <= KMAX && ll <= 2);
  for (int i = 0; i < 8; i++) { VP_SET(u8, PATH[i], "pattern"); } for (u64 i = 0; i < KMAX; i++) if (i < sl) __CPROVER_assume(PATH[i] != '/');
  u64 plen = pe ? 0 : sl + (hl ? 1 + ll : 0); if (!pe && hl) __CPROVER_assume(PATH[sl] == '/');
  sv_t pattern = { plen, PATH };
  _ZN8Pistache4Rest15SegmentTreeNode8addRouteERKSt17basic_string_viewIcSt11char_traitsIcEERKSt8functionIFNS0_5Route6ResultENS0_7RequestENS_4Http14ResponseWriterEEERKSt10shared_ptrIcE(node, (u8*)&pattern, handler_obj, ref_obj);
  int thr = vp_take_exception();
  if (thr) __CPROVER_assert(vp_exc_is(_ZTISt13runtime_error), "a refused pattern raises std::runtime_error");
  u64 n1[3]; for (int c = 0; c < 3; c++) n1[c] = GM_(node + (c == 0 ? OFF_Node_fixed : c == 1 ? OFF_Node_param : OFF_Node_optional))->n;
  if (pe) {
    __CPROVER_assert((thr != 0) == (hr != 0), "an exhausted pattern is refused iff the node already has a route");
    if (!thr) __CPROVER_assert(*(u8**)(node + OFF_Node_route) == new_route && n_new_routes == 1, "an exhausted pattern installs the handler at this node");
    __CPROVER_assert(n_rec == 0 && n_new_nodes == 0 && n1[0] == n0[0] && n1[1] == n0[1] && n1[2] == n0[2], "an exhausted pattern creates no child");
  } else {
    int qm = -1; for (u64 i = 0; i < KMAX; i++) if (i < sl && PATH[i] == '?' && qm < 0) qm = (int)i;
    int kind; /* 0 fixed 1 param 2 optional 3 splat -1 refused */
    if (PATH[0] == ':') kind = qm < 0 ? 1 : (qm == (int)sl - 1 ? 2 : -1);
    else if (PATH[0] == '*') kind = sl == 1 ? 3 : -1;
    else kind = qm < 0 ? 0 : -1;
    __CPROVER_assert((thr != 0) == (kind < 0), "a segment is refused iff it has a '?' that is not the last character of a ':' segment, or is '*' followed by more");
    if (kind < 0) __CPROVER_assert(n_rec == 0 && n_new_nodes == 0 && n1[0] == n0[0] && n1[1] == n0[1] && n1[2] == n0[2], "a refused pattern changes nothing");
    if (kind >= 0 && !thr) {
      __CPROVER_assert(n_rec == 1 && rec_handler == handler_obj && rec_ref == ref_obj, "the rest of the pattern is registered exactly once, with the same handler");
      __CPROVER_assert(hl ? (rec_path_len == ll && (ll == 0 || rec_path_p == PATH + sl + 1)) : rec_path_len == 0, "the child receives exactly the lower pattern (the text after the first '/')");
      __CPROVER_assert(*(u8**)(node + OFF_Node_route) == (hr ? (u8*)route_obj : (u8*)0) && n_new_routes == 0, "this node's own route is untouched");
      if (kind == 3) {
        __CPROVER_assert(n1[0] == n0[0] && n1[1] == n0[1] && n1[2] == n0[2], "a wildcard segment touches no keyed collection");
        __CPROVER_assert(hs ? (rec_self == splat_child && n_new_nodes == 0) : (rec_self == new_nodes[0] && n_new_nodes == 1 && *(u8**)(node + OFF_Node_splat) == new_nodes[0]), "the wildcard child is reused, or created once");
      } else {
        sv_t key = { kind == 2 ? sl - 1 : sl, PATH }; gmapn_t* m = GM_(node + (kind == 0 ? OFF_Node_fixed : kind == 1 ? OFF_Node_param : OFF_Node_optional));
        int existed = n0[kind] == 1 && sv_eq(&ent[kind][0].key, &key);
        for (int c = 0; c < 3; c++) if (c != kind) __CPROVER_assert(n1[c] == n0[c], "only the collection of the segment's kind can grow");
        __CPROVER_assert(*(u8**)(node + OFF_Node_splat) == (hs ? (u8*)splat_child : (u8*)0), "the wildcard child is untouched by a keyed segment");
        if (existed) __CPROVER_assert(n1[kind] == n0[kind] && n_new_nodes == 0 && rec_self == child[kind][0], "an existing child with this key is reused");
        else { __CPROVER_assert(n1[kind] == n0[kind] + 1 && n_new_nodes == 1 && rec_self == new_nodes[0], "a missing child is created exactly once and receives the lower pattern");
               __CPROVER_assert(m->e[m->n - 1].node == new_nodes[0] && m->e[m->n - 1].key.len == key.len && m->e[m->n - 1].key.p == PATH, "the new child is stored under exactly the segment's key (an optional parameter without its '?')"); }
      } } }
  VP_END("witness: end of harness reached");
  return 0;
}
