// Wrapper TU for C16(a): extern "C" entry points around the real Header::toLowercase / LowercaseHash / LowercaseEqual /
// LowercaseEqualStatic (include/pistache/http_headers.h, src/common/http_headers.cc).  Strings are built from (ptr,len)
// with the real std::string code (short strings: SSO).
#include <pistache/http_headers.h>
#include <cstring>
using namespace Pistache::Http::Header;
extern "C" {
__attribute__((noinline)) void vp_lower(const char* s, size_t n, char* out) {
  std::string r = toLowercase(std::string(s, n));
  memcpy(out, r.data(), r.size()); out[r.size()] = 0; out[15] = static_cast<char>(r.size());
}
__attribute__((noinline)) int vp_equal(const char* a, size_t na, const char* b, size_t nb) { return LowercaseEqual{}(std::string(a, na), std::string(b, nb)); }
__attribute__((noinline)) int vp_equal_static(const char* a, size_t na, const char* b, size_t nb) { return LowercaseEqualStatic(std::string(a, na), std::string(b, nb)); }
}
