/* BodyStep kernels of src/common/http.cc (inl mode): Content-Length and chunked body framing.
 *
 * Lemma L5 of C01 (cut independence, by self-composition) and C04(b,d) (no progress left behind):
 *   run A delivers the symbolic body-section bytes b[0..n) in up to D pieces (cuts k1 <= k2 <= n, exactly the states
 *   ArrayStreamBuf::feed produces: same contents, read offset preserved, exact-size block of the delivered length);
 *   run B delivers them at once.  Both use the real BodyStep code on a fresh BodyStep object (or, with -DSTALE, on
 *   the state ParserBase::reset() leaves behind).  Asserted: same final state (Again/Done/error code), same body bytes,
 *   same consumed count; A does not report Done before B's message end has been delivered; counters are back to their
 *   initial values at Done; every append lies inside the delivered bytes; reserve() never exceeds the request budget;
 *   every loop terminates (unwinding assertions).
 * REFERENCE adds an independent oracle for the well-formed subset (RFC 7230 4.1 chunked coding without extensions /
 *   fixed length): the real code must return exactly the reference body and consume exactly the reference length.   */
#include "vp.h"
#include "libc.h"
#include "str_real.h"
#include "cursor_contract.h"
#include "offsets.h"
#ifndef N
#define N 8
#endif
#ifndef D
#define D 2
#endif
#define MAXB (N + 4)
u32 _ZN8Pistache4Http7Private8BodyStep18parseContentLengthERNS_12StreamCursorERKSt10shared_ptrINS0_6Header13ContentLengthEE(u8*, u8*, u8*);
u32 _ZN8Pistache4Http7Private8BodyStep21parseTransferEncodingERNS_12StreamCursorERKSt10shared_ptrINS0_6Header16TransferEncodingEE(u8*, u8*, u8*);

typedef struct { u32 state; int thrown; u32 code; u64 consumed; u64 blen; u8 body[MAXB]; u64 bytesRead; i64 csize; u64 cbytes; u64 deliveries; } result_t;
typedef struct { u8 pad0[OFF_Message_body]; rstr_t body; u8 rest[SIZEOF_Request - OFF_Message_body - sizeof(rstr_t)]; } msg_t;
typedef struct { void* vptr; u8* message; struct { u8* message; u64 bytesRead; i64 size; i64 already; } chunk; u64 bytesRead; } bodystep_t;
_Static_assert(offsetof(bodystep_t, message) == OFF_Step_message && offsetof(bodystep_t, chunk) == OFF_BodyStep_chunk && offsetof(bodystep_t, bytesRead) == OFF_BodyStep_bytesRead
  && offsetof(bodystep_t, chunk.bytesRead) == OFF_BodyStep_chunk + OFF_Chunk_bytesRead && offsetof(bodystep_t, chunk.size) == OFF_BodyStep_chunk + OFF_Chunk_size
  && offsetof(bodystep_t, chunk.already) == OFF_BodyStep_chunk + OFF_Chunk_already && sizeof(bodystep_t) == SIZEOF_BodyStep, "BodyStep layout changed: update bodystep_t");
static int cur_run; static u8* cur_buf; static u64 cur_len; static u8* cur_msg;
static u8 gbody[2][MAXB]; static u64 glen[2]; static u64 reserve_max; static int bad_append;

#ifndef REAL
u32 vp_http_code;
u8 _ZTIN8Pistache4Http9HttpErrorE[24] __attribute__((aligned(8)));
/* stub: Step::raise(msg, code) == throw HttpError(code, msg) */
void _ZN8Pistache4Http7Private4Step5raiseEPKcNS0_4CodeE(u8* msg, u32 code) {
  (void)msg; vp_http_code = code; u8* o = (u8*)malloc(16); __CPROVER_assume(o != 0); VP_EXC_SETVT(o);
  __ir_exc_obj = o; __ir_exc_type = _ZTIN8Pistache4Http9HttpErrorE; __ir_exc_pending = 1; }
/* model: std::string::_M_append on message->body_: ghost copy + range check against the delivered bytes */
u8* _ZNSt7__cxx1112basic_stringIcSt11char_traitsIcESaIcEE9_M_appendEPKcm(u8* self, u8* p, u64 n) {
  __CPROVER_assert(self == cur_msg + OFF_Message_body, "append targets message->body_");
  int inside = n <= cur_len && (u64)p >= (u64)cur_buf && (u64)p + n <= (u64)cur_buf + cur_len;
  __CPROVER_assert(inside, "body append range lies inside the delivered bytes");
  if (!inside) { bad_append = 1; return self; }
  for (u64 i = 0; i < N + 1; i++) if (i < n) { if (glen[cur_run] < MAXB) gbody[cur_run][glen[cur_run]] = p[i]; glen[cur_run]++; }
  ((rstr_t*)self)->len += n; return self; }
void _ZNSt7__cxx1112basic_stringIcSt11char_traitsIcESaIcEE7reserveEm(u8* self, u64 n) { (void)self; if (n > reserve_max) reserve_max = n;
  if (n > 0x3fffffffffffffffULL) _ZSt20__throw_length_errorPKc(0); }
#else
int vp_call_guarded3(u32 (*f)(u8*, u8*, u8*), u8* a, u8* b, u8* c, u32* ret, u32* code);
#endif

static void run(int r, u8* b, u64 n, u64 k1, u64 k2, int chunked, u64 cl, int stale, u64 st_bytes, i64 st_csize, u64 st_cbytes, i64 st_already, result_t* out) {
  /* typed images of the real objects (pointer members must be typed for CBMC; layout pinned by static asserts) */
  static msg_t msgs[2];
  u8* msg = (u8*)&msgs[r]; cur_run = r; cur_msg = msg; glen[r] = 0;
  rstr_init_empty(&msgs[r].body);
  bodystep_t bso; u8* bs = (u8*)&bso;
  bso.vptr = 0; bso.message = msg; bso.chunk.message = msg;
  bso.chunk.bytesRead = stale ? st_cbytes : 0;
  bso.chunk.size = stale ? st_csize : -1;
  bso.chunk.already = st_already;   /* not initialised by the constructor: arbitrary */
  bso.bytesRead = stale ? st_bytes : 0;
  /* fake Header object: { vptr, value } and shared_ptr { ptr, ctrl } */
  u64 hdr[2]; hdr[0] = 0; hdr[1] = chunked ? 0 : cl; if (chunked) *(u32*)&hdr[1] = 4 /* Encoding::Chunked */;
  u8* sp[2] = { (u8*)hdr, 0 };
  u64 cuts[3] = { k1, k2, n };
  u64 off = 0; sb_t sb; cursor_t c = { &sb };
  out->state = 0; out->thrown = 0; out->code = 0; out->deliveries = 0;
  for (int i = 0; i < D; i++) {
    u64 len = i == D - 1 ? n : cuts[i + (3 - D)];
    if (i > 0 && len == cur_len) continue;          /* nothing new delivered: the event loop does not call the parser */
    u8* d = (u8*)malloc(len); __CPROVER_assume(d != 0);
    for (u64 j = 0; j < N; j++) if (j < len) d[j] = b[j];
    vp_sb_init(&sb, d, off, len); cur_buf = d; cur_len = len; out->deliveries++;
    u32 st; int thr; u32 code = 0;
#ifndef REAL
    st = chunked ? _ZN8Pistache4Http7Private8BodyStep21parseTransferEncodingERNS_12StreamCursorERKSt10shared_ptrINS0_6Header16TransferEncodingEE(bs, (u8*)&c, (u8*)sp)
                 : _ZN8Pistache4Http7Private8BodyStep18parseContentLengthERNS_12StreamCursorERKSt10shared_ptrINS0_6Header13ContentLengthEE(bs, (u8*)&c, (u8*)sp);
    thr = vp_take_exception(); if (thr) { code = vp_exc_is(_ZTIN8Pistache4Http9HttpErrorE) ? vp_http_code : 500; }
#else
    thr = vp_call_guarded3(chunked ? _ZN8Pistache4Http7Private8BodyStep21parseTransferEncodingERNS_12StreamCursorERKSt10shared_ptrINS0_6Header16TransferEncodingEE
                                   : _ZN8Pistache4Http7Private8BodyStep18parseContentLengthERNS_12StreamCursorERKSt10shared_ptrINS0_6Header13ContentLengthEE, bs, (u8*)&c, (u8*)sp, &st, &code);
#endif
    __CPROVER_assert(sb.eback == d && sb.egptr == d + len && (u64)sb.gptr >= (u64)d + off && (u64)sb.gptr <= (u64)d + len, "cursor stays inside the delivered bytes and never moves backwards");
    off = (u64)sb.gptr - (u64)d;
    out->state = st; out->thrown = thr; out->code = code;
    if (thr || st != 0) break;
  }
  out->consumed = off;
#ifndef REAL
  out->blen = glen[r]; for (u64 i = 0; i < MAXB; i++) out->body[i] = i < glen[r] ? gbody[r][i] : 0;
#else
  { rstr_t* s = &msgs[r].body; out->blen = s->len; for (u64 i = 0; i < MAXB; i++) out->body[i] = i < s->len ? s->p[i] : 0;
    if (s->p != s->u.local && s->u.cap > reserve_max) reserve_max = s->u.cap; }
#endif
  out->bytesRead = bso.bytesRead; out->csize = bso.chunk.size; out->cbytes = bso.chunk.bytesRead;
}

static int hexv(u8 c) { return (c >= '0' && c <= '9') ? c - '0' : (c >= 'a' && c <= 'f') ? c - 'a' + 10 : (c >= 'A' && c <= 'F') ? c - 'A' + 10 : -1; }
/* reference decoder of strict chunked coding over b[0..n): returns 1 = complete message (ends at *end, body in rb/rl),
 * 0 = well-formed so far but incomplete, -1 = not in the strict well-formed language */
static int ref_chunked(u8* b, u64 n, u64* end, u8* rb, u64* rl) {
  u64 p = 0; *rl = 0;
  for (int it = 0; it < N / 3 + 1; it++) {
    u64 sz = 0; int nd = 0;
    while (p < n && hexv(b[p]) >= 0 && nd < 3) { sz = sz * 16 + (u64)hexv(b[p]); p++; nd++; }
    if (p >= n) return nd <= 3 ? 0 : -1;
    if (nd == 0) return -1;
    if (b[p] != 13) return -1;
    if (p + 1 >= n) return 0;
    if (b[p + 1] != 10) return -1;
    p += 2;
    if (sz == 0) { /* last-chunk, then the CRLF closing the (empty) trailer section */
      if (p >= n) return 0;
      if (b[p] != 13) return -1;
      if (p + 1 >= n) return 0;
      if (b[p + 1] != 10) return -1;
      *end = p + 2; return 1; }
    for (u64 i = 0; i < N; i++) if (i < sz) { if (p >= n) return 0; if (*rl < MAXB) rb[*rl] = b[p]; (*rl)++; p++; }
    if (p >= n) return 0;
    if (b[p] != 13) return -1;
    if (p + 1 >= n) return 0;
    if (b[p + 1] != 10) return -1;
    p += 2;
  }
  return -1;
}

int main(void) {
#ifndef REAL
  __ir_init_globals();
  __ir_ti_si(_ZTIN8Pistache4Http9HttpErrorE, _ZTISt9exception);
#endif
  /* sizes are concrete per query (symbolic-size heap objects make the encoding explode): one query per (n, k1, k2) */
#ifdef NFIX
  u64 n = NFIX, k1 = K1FIX, k2 = K2FIX;
#else
  VP_IN(u64, n, "n"); __CPROVER_assume(n <= N);
  VP_IN(u64, k1, "k1"); VP_IN(u64, k2, "k2");
#endif
  __CPROVER_assume(k1 <= k2 && k2 <= n);
  VP_BYTES(b, n, N, "b");
#ifdef CHUNKED
  int chunked = 1; u64 cl = 0;
#else
  int chunked = 0; VP_IN(u64, cl, "cl");
#if defined(CL_SMALL) || defined(TV)
  __CPROVER_assume(cl <= N + 2);
#endif
#endif
  VP_IN(i64, already, "already");
  u64 st_bytes = 0, st_cbytes = 0; i64 st_csize = -1;
#ifdef STALE
  /* C04(d): the parser state is whatever ParserBase::reset() leaves in the BodyStep after an abandoned message */
  VP_SET(u64, st_bytes, "st_bytes"); VP_SET(i64, st_csize, "st_csize"); VP_SET(u64, st_cbytes, "st_cbytes");
#include "c04_reset_post.h"
#endif
  VP_IN(u64, budget, "budget"); __CPROVER_assume(budget >= n);   /* the bytes were accepted by feed(): n <= maxSize */
  result_t A, B;
  run(1, b, n, n, n, chunked, cl, 0, 0, -1, 0, already, &B);          /* B: everything at once, fresh state */
#ifdef ONLYB
  A = B;
#elif defined(STALE)
  run(0, b, n, n, n, chunked, cl, 1, st_bytes, st_csize, st_cbytes, already, &A);   /* A: same bytes, state left by reset() */
#else
  run(0, b, n, k1, k2, chunked, cl, 0, 0, -1, 0, already, &A);      /* A: delivered in pieces */
#endif
  VP_OBS("A.state", A.state); VP_OBS("A.thrown", A.thrown); VP_OBS("A.code", A.code); VP_OBS("A.consumed", A.consumed); VP_OBS("A.blen", A.blen);
  VP_OBS("B.state", B.state); VP_OBS("B.thrown", B.thrown); VP_OBS("B.code", B.code); VP_OBS("B.consumed", B.consumed); VP_OBS("B.blen", B.blen);
  for (u64 i = 0; i < MAXB; i++) { VP_OBS("A.body", A.body[i]); VP_OBS("B.body", B.body[i]); }
  VP_OBS("B.bytesRead", B.bytesRead); VP_OBS("B.csize", B.csize);
  __CPROVER_assert(!bad_append, "every append lies inside the delivered bytes");
  __CPROVER_assert(reserve_max <= budget, "body_.reserve() never asks for more than the configured maximum request size");
  /* --- cut independence (C01 L5) / message independence (C04 d) */
  __CPROVER_assert(A.thrown == B.thrown && (!A.thrown || A.code == B.code), "same error (or none) whatever the segmentation");
  if (!A.thrown && !B.thrown) {
    __CPROVER_assert(A.state == B.state, "same parse state (need-more-data / complete) whatever the segmentation");
    __CPROVER_assert(A.consumed == B.consumed, "same number of bytes consumed whatever the segmentation");
    __CPROVER_assert(A.blen == B.blen, "same body length whatever the segmentation");
    for (u64 i = 0; i < MAXB; i++) __CPROVER_assert(A.body[i] == B.body[i], "same body bytes whatever the segmentation");
    __CPROVER_assert(A.state != 1 && B.state != 1, "the body step never answers Next");
  }
  /* --- nothing left behind at the end of a message (C04 b) */
  if (!B.thrown && B.state == 2) __CPROVER_assert(B.bytesRead == 0 && B.csize == -1 && B.cbytes == 0, "body progress counters are back to their initial values at Done");
  if (!A.thrown && A.state == 2) __CPROVER_assert(A.bytesRead == 0 && A.csize == -1 && A.cbytes == 0, "body progress counters are back to their initial values at Done (segmented run)");
  if (B.thrown) __CPROVER_assert(B.csize == -1 && B.cbytes == 0, "chunk progress is reset when the body step raises");
#ifdef REFERENCE
  /* --- independent oracle on the whole bytes */
  if (!chunked) {
    if (cl <= n) { __CPROVER_assert(!B.thrown && B.state == 2 && B.consumed == cl && B.blen == cl, "Content-Length: complete exactly after cl bytes");
      for (u64 i = 0; i < MAXB; i++) if (i < cl) __CPROVER_assert(B.body[i] == b[i], "Content-Length: body is the first cl bytes"); }
    else { __CPROVER_assert(!B.thrown && B.state == 0 && B.consumed == n && B.blen == n, "Content-Length: need more data until cl bytes have arrived"); }
  } else {
    u8 rb[MAXB]; u64 rl = 0, end = 0; int rr = ref_chunked(b, n, &end, rb, &rl);
    VP_OBS("ref", rr);
    if (rr == 1) {
      __CPROVER_assert(!B.thrown && B.state == 2, "chunked: a complete well-formed message is reported complete");
      __CPROVER_assert(B.consumed == end, "chunked: exactly the message's bytes are consumed (including the final CRLF)");
      __CPROVER_assert(B.blen == rl, "chunked: decoded length equals the sum of the chunk sizes");
      for (u64 i = 0; i < MAXB; i++) if (i < rl) __CPROVER_assert(B.body[i] == rb[i], "chunked: decoded body equals the concatenated chunk data");
    } else if (rr == 0) {
      __CPROVER_assert(!B.thrown && B.state == 0, "chunked: a proper prefix of a well-formed message needs more data (no early completion, no error)");
    }
  }
#endif
#ifdef WITNESS
#ifdef CHUNKED
  __CPROVER_assert(!(A.state == 2 && !A.thrown && A.deliveries >= 2 && (N < 11 || A.blen >= 1)), "witness: a chunked body (with data when n >= 11) completes after being delivered in pieces");
#else
  __CPROVER_assert(!(A.state == 2 && !A.thrown && A.deliveries >= 2 && A.blen >= 2), "witness: a Content-Length body completes after being delivered in pieces");
#endif
#endif
  return 0;
}
