/* ParserBase kernels of src/common/http.cc (inl mode; real std::vector growth code inlined):
 *   H_FEED  (C01 L1, C14 a): from an arbitrary valid receive-buffer state, feed(data,len) is refused iff size+len > maxSize
 *           (and then changes nothing); otherwise contents = old ++ data, the read offset is preserved and the get
 *           area is re-based on the (possibly reallocated) storage.  Up to two successive feeds.
 *   H_RESET (C04 a): from an arbitrary parser state (any step index, any body/chunk progress, any buffer) reset()
 *           restores the state of a freshly constructed parser.
 *   H_PARSE (C01 L6): parse() with the step apply() functions as nondeterministic stubs: the step index advances only
 *           on Next, never past the last step, and parse() returns only Again or Done.                            */
#include "vp.h"
#include "libc.h"
#include "str_real.h"
#include "cursor_contract.h"
#include "offsets.h"
u8 _ZN8Pistache4Http7Private10ParserBase4feedEPKcm(u8*, u8*, u64);
void _ZN8Pistache4Http7Private10ParserBase5resetEv(u8*);
u32 _ZN8Pistache4Http7Private10ParserBase5parseEv(u8*);
extern u8 _ZTVN8Pistache4Http7Private8BodyStepE[];
extern u8 _ZTVN8Pistache4Http7Private11HeadersStepE[];
extern u8 _ZTVN8Pistache4Http7Private15RequestLineStepE[];
#ifndef S
#define S 4
#endif
typedef struct { void* vptr; u8* message; struct { u8* message; u64 bytesRead; i64 size; i64 already; } chunk; u64 bytesRead; } bodystep_t;
typedef struct { void* vptr; u8* message; } step_t;
typedef struct { sb_t sb; rvec_t bytes; u64 maxSize; } asb_t;
typedef struct { void* vptr; u8* steps[3]; u64 currentStep; asb_t buffer; cursor_t cursor; } parser_t;
_Static_assert(offsetof(parser_t, steps) == OFF_ParserBase_allSteps && offsetof(parser_t, currentStep) == OFF_ParserBase_currentStep && offsetof(parser_t, buffer) == OFF_ParserBase_buffer
  && offsetof(parser_t, cursor) == OFF_ParserBase_cursor && offsetof(asb_t, bytes) == OFF_ArrayStreamBuf_bytes && offsetof(asb_t, maxSize) == OFF_ArrayStreamBuf_maxSize && sizeof(parser_t) == SIZEOF_ParserBase,
  "ParserBase/ArrayStreamBuf layout changed: update parser_t");
_Static_assert(offsetof(bodystep_t, chunk) == OFF_BodyStep_chunk && offsetof(bodystep_t, bytesRead) == OFF_BodyStep_bytesRead && sizeof(bodystep_t) == SIZEOF_BodyStep, "BodyStep layout changed");

#ifdef H_PARSE
/* nondeterministic step results; a script of up to 4 results */
static u32 script[4]; static int calls; static int which[4];
static u32 stub_apply(int w) { if (w == 2) __CPROVER_assume(script[calls & 3] != 1); /* the body step never answers Next: asserted in c01_body.c */
  __CPROVER_assert(calls < 4, "parse() calls at most one apply per step index plus one"); if (calls < 4) { which[calls] = w; } return script[calls++ & 3]; }
u32 _ZN8Pistache4Http7Private15RequestLineStep5applyERNS_12StreamCursorE(u8* self, u8* c) { (void)self; (void)c; return stub_apply(0); }
u32 _ZN8Pistache4Http7Private16ResponseLineStep5applyERNS_12StreamCursorE(u8* self, u8* c) { (void)self; (void)c; return stub_apply(0); }
u32 _ZN8Pistache4Http7Private11HeadersStep5applyERNS_12StreamCursorE(u8* self, u8* c) { (void)self; (void)c; return stub_apply(1); }
u32 _ZN8Pistache4Http7Private8BodyStep5applyERNS_12StreamCursorE(u8* self, u8* c) { (void)self; (void)c; return stub_apply(2); }
#else
u32 _ZN8Pistache4Http7Private15RequestLineStep5applyERNS_12StreamCursorE(u8* self, u8* c) { (void)self; (void)c; __CPROVER_assert(0, "apply not expected"); return 0; }
u32 _ZN8Pistache4Http7Private16ResponseLineStep5applyERNS_12StreamCursorE(u8* self, u8* c) { (void)self; (void)c; __CPROVER_assert(0, "apply not expected"); return 0; }
u32 _ZN8Pistache4Http7Private11HeadersStep5applyERNS_12StreamCursorE(u8* self, u8* c) { (void)self; (void)c; __CPROVER_assert(0, "apply not expected"); return 0; }
u32 _ZN8Pistache4Http7Private8BodyStep5applyERNS_12StreamCursorE(u8* self, u8* c) { (void)self; (void)c; __CPROVER_assert(0, "apply not expected"); return 0; }
#endif

int main(void) {
  __ir_init_globals();
  static parser_t P; static bodystep_t body; static step_t line, headers; static u8 msg[8];
  line.vptr = _ZTVN8Pistache4Http7Private15RequestLineStepE + 16; line.message = msg;
  headers.vptr = _ZTVN8Pistache4Http7Private11HeadersStepE + 16; headers.message = msg;
  body.vptr = _ZTVN8Pistache4Http7Private8BodyStepE + 16; body.message = msg; body.chunk.message = msg;
  P.steps[0] = (u8*)&line; P.steps[1] = (u8*)&headers; P.steps[2] = (u8*)&body;
  /* arbitrary valid receive buffer: size s, capacity s+extra, read offset o */
#ifdef SFIX
  u64 s = SFIX, extra = XFIX;   /* concrete sizes per query (symbolic-size heap objects do not scale) */
#else
  VP_IN(u64, s, "s"); VP_IN(u64, extra, "extra");
#endif
  VP_IN(u64, o, "o"); __CPROVER_assume(s <= S && extra <= 2 && o <= s);
  u8* store = 0;
  if (s + extra > 0) { store = (u8*)malloc(s + extra); __CPROVER_assume(store != 0); }
  u8 old[S]; for (u64 i = 0; i < S; i++) { VP_SET(u8, old[i], "old"); if (i < s) store[i] = old[i]; }
  P.buffer.bytes.b = store; P.buffer.bytes.e = store + s; P.buffer.bytes.c = store + s + extra;
  vp_sb_init(&P.buffer.sb, store, o, s);
  P.cursor.buf = &P.buffer.sb;
  VP_IN(u64, maxSize, "maxSize"); P.buffer.maxSize = maxSize;
  __CPROVER_assume(s <= maxSize);    /* invariant of the buffer: established by the constructor, preserved by feed (asserted below) */
#if defined(H_FEED)
  P.currentStep = 0;
  u64 total = s;
  for (int round = 0; round < 2; round++) {
#ifdef SFIX
    u64 len = round == 0 ? L1FIX : L2FIX;
#else
    VP_IN(u64, len, "len"); __CPROVER_assume(len <= S);
#endif
    u8* data = (u8*)malloc(len); __CPROVER_assume(data != 0);
    u8 dcopy[S]; for (u64 i = 0; i < S; i++) { VP_SET(u8, dcopy[i], "data"); if (i < len) data[i] = dcopy[i]; }
    u8* eb = P.buffer.sb.eback; u8* gp = P.buffer.sb.gptr; u8* eg = P.buffer.sb.egptr; u8* vb = P.buffer.bytes.b; u8* ve = P.buffer.bytes.e;
    u8 r = _ZN8Pistache4Http7Private10ParserBase4feedEPKcm((u8*)&P, data, len);
    __CPROVER_assert(!vp_take_exception(), "feed does not throw");
    __CPROVER_assert((r != 0) == (total + len <= maxSize), "feed is refused iff accumulated + len exceeds the configured maximum");
    if (!r) {
      __CPROVER_assert(P.buffer.sb.eback == eb && P.buffer.sb.gptr == gp && P.buffer.sb.egptr == eg && P.buffer.bytes.b == vb && P.buffer.bytes.e == ve, "a refused feed changes nothing");
    } else {
      u64 ns = (u64)P.buffer.bytes.e - (u64)P.buffer.bytes.b;
      __CPROVER_assert(ns == total + len, "accepted feed: size grows by len");
      __CPROVER_assert(P.buffer.sb.eback == P.buffer.bytes.b && P.buffer.sb.gptr == P.buffer.bytes.b + o && P.buffer.sb.egptr == P.buffer.bytes.e, "accepted feed: get area re-based on the storage, read offset preserved");
      for (u64 i = 0; i < S; i++) if (i < s) __CPROVER_assert(P.buffer.bytes.b[i] == old[i], "accepted feed: earlier bytes unchanged");
      for (u64 i = 0; i < S; i++) if (i < len) __CPROVER_assert(P.buffer.bytes.b[total + i] == dcopy[i], "accepted feed: new bytes appended in order");
      total += len;
    }
    __CPROVER_assert(total <= maxSize, "the buffer never holds more than the configured maximum");
  }
#elif defined(H_RESET)
  VP_SET(u64, P.currentStep, "step"); __CPROVER_assume(P.currentStep <= 2);
  VP_SET(u64, body.bytesRead, "bytesRead"); VP_SET(u64, body.chunk.bytesRead, "cbytes"); VP_SET(i64, body.chunk.size, "csize"); VP_SET(i64, body.chunk.already, "already");
  _ZN8Pistache4Http7Private10ParserBase5resetEv((u8*)&P);
  __CPROVER_assert(!vp_take_exception(), "reset does not throw");
  __CPROVER_assert(P.currentStep == 0, "reset: parsing restarts at the first step");
  __CPROVER_assert(body.bytesRead == 0, "reset: Content-Length progress is cleared");
  __CPROVER_assert(body.chunk.size == -1 && body.chunk.bytesRead == 0, "reset: chunk progress is cleared");
  __CPROVER_assert(P.buffer.bytes.b == P.buffer.bytes.e, "reset: the receive buffer is empty");
  __CPROVER_assert(P.buffer.sb.eback == P.buffer.sb.gptr && P.buffer.sb.gptr == P.buffer.sb.egptr, "reset: the get area is empty");
  __CPROVER_assert(P.buffer.maxSize == maxSize, "reset keeps the configured maximum");
#elif defined(H_PARSE)
  VP_SET(u64, P.currentStep, "step"); __CPROVER_assume(P.currentStep <= 2);
  u64 step0 = P.currentStep;
  for (int i = 0; i < 4; i++) { VP_SET(u32, script[i], "script"); __CPROVER_assume(script[i] <= 2); }
  /* contract of the steps: only the body step answers Done; the body step never answers Next */
  u32 r = _ZN8Pistache4Http7Private10ParserBase5parseEv((u8*)&P);
  int thr = vp_take_exception();
  __CPROVER_assert(!thr, "parse() itself raises nothing");
  u64 expect = step0; int ended = 0; u32 last = 0; int n_expected = 0;
  for (int i = 0; i < 4; i++) if (!ended) {
    __CPROVER_assert(i >= calls || which[i] == (int)expect, "apply is invoked on the step the index designates");
    last = script[i]; n_expected++;
    if (script[i] == 1) { expect++; if (expect > 2) ended = 2; } else ended = 1;
  }
  if (ended == 1) {
    __CPROVER_assert(calls == n_expected && r == last && P.currentStep == expect, "the step index advances exactly on Next; parse() returns the first Again/Done");
    __CPROVER_assert(r == 0 || r == 2, "parse() returns Again or Done");
  }
#endif
  VP_END("witness: end of harness reached");
  return 0;
}
