// C++ shim used only in REAL native builds (replay / translation validation): calls a real function and turns a
// C++ exception into a flag, so that C harnesses can observe "threw".
#include <exception>
#include <cstdint>
extern "C" {
int vp_real_exception;
int vp_call_guarded(uint8_t* (*f)(uint8_t*), uint8_t* self, uint8_t** ret) {
  try { *ret = f(self); return 0; } catch (...) { vp_real_exception = 1; *ret = nullptr; return 1; }
}
}
