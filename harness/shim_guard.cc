// C++ shim used only in REAL native builds (replay / translation validation): calls a real function and turns a
// C++ exception into a flag/code, so that C harnesses can observe "threw".
#include <exception>
#include <cstdint>
#include <pistache/http_defs.h>
extern "C" {
int vp_real_exception;
int vp_call_guarded(uint8_t* (*f)(uint8_t*), uint8_t* self, uint8_t** ret) {
  try { *ret = f(self); return 0; } catch (...) { vp_real_exception = 1; *ret = nullptr; return 1; }
}
int vp_call_guarded3(uint32_t (*f)(uint8_t*, uint8_t*, uint8_t*), uint8_t* a, uint8_t* b, uint8_t* c, uint32_t* ret, uint32_t* code) {
  try { *ret = f(a, b, c); return 0; }
  catch (const Pistache::Http::HttpError& e) { *code = (uint32_t)e.code(); *ret = 0; return 1; }
  catch (const std::exception&) { *code = 500; *ret = 0; return 1; }
  catch (...) { *code = 599; *ret = 0; return 1; }
}
int vp_call_guarded2(uint32_t (*f)(uint8_t*, uint8_t*), uint8_t* a, uint8_t* b, uint32_t* ret, uint32_t* code) {
  try { *ret = f(a, b); return 0; }
  catch (const Pistache::Http::HttpError& e) { *code = (uint32_t)e.code(); *ret = 0; return 1; }
  catch (const std::exception&) { *code = 500; *ret = 0; return 1; }
  catch (...) { *code = 599; *ret = 0; return 1; }
}
}
// scheduling hook of include/pistache/mailbox.h (guard PISTACHE_VERIF_HOOKS): a no-op outside the C13 replay driver
extern "C" __attribute__((weak)) void pistache_verif_yield(int) {}
