// Prints member offsets / sizes of the Pistache classes that harnesses address by layout (compiled and run on every check,
// so the harnesses follow refactorings of the headers).
#include <sstream>
#include <iostream>
#include <memory>
#include <string>
#include <vector>
#include <unordered_map>
#include <map>
#include <deque>
#include <array>
#include <mutex>
#include <atomic>
#include <chrono>
#include <functional>
#include <thread>
#include <condition_variable>
#include <future>
#include <optional>
#include <tuple>
#include <set>
#include <algorithm>
#include <regex>
#include <list>
#include <typeindex>
#include <iomanip>
#include <bitset>
#include <type_traits>
#include <stdexcept>
#include <limits>
#include <cstring>
#define private public
#define protected public
#include <pistache/http.h>
#include <pistache/transport.h>
#include <pistache/net.h>
#include <pistache/cookie.h>
#include <pistache/mime.h>
#include <cstdio>
#include <cstddef>
#pragma GCC diagnostic ignored "-Winvalid-offsetof"
using namespace Pistache;
using namespace Pistache::Http;
using namespace Pistache::Http::Private;
#define O(name, T, m) printf("#define OFF_%s %zu\n", #name, offsetof(T, m))
#define S(name, T) printf("#define SIZEOF_%s %zu\n", #name, sizeof(T))
int main() {
  O(Step_message, Step, message);
  O(BodyStep_chunk, BodyStep, chunk); O(BodyStep_bytesRead, BodyStep, bytesRead);
  O(Chunk_message, BodyStep::Chunk, message); O(Chunk_bytesRead, BodyStep::Chunk, bytesRead); O(Chunk_size, BodyStep::Chunk, size);
  O(Chunk_already, BodyStep::Chunk, alreadyAppendedChunkBytes);
  S(BodyStep, BodyStep); S(Chunk, BodyStep::Chunk);
  O(Message_version, Message, version_); O(Message_code, Message, code_); O(Message_body, Message, body_);
  O(Message_cookies, Message, cookies_); O(Message_headers, Message, headers_);
  O(Request_method, Request, method_); O(Request_resource, Request, resource_); O(Request_query, Request, query_);
  S(Request, Request); S(Response, Response); S(Message, Message);
  O(ContentLength_value, Header::ContentLength, value_); O(EncodingHeader_encoding, Header::EncodingHeader, encoding_);
  O(ParserBase_allSteps, ParserBase, allSteps); O(ParserBase_currentStep, ParserBase, currentStep);
  O(ParserBase_buffer, ParserBase, buffer); O(ParserBase_cursor, ParserBase, cursor);
  O(ArrayStreamBuf_bytes, ArrayStreamBuf<char>, bytes); O(ArrayStreamBuf_maxSize, ArrayStreamBuf<char>, maxSize);
  S(ArrayStreamBuf, ArrayStreamBuf<char>); S(ParserBase, ParserBase);
  O(RequestParser_request, RequestParser, request); O(RequestParser_time, RequestParser, time_); S(RequestParser, RequestParser);
  O(DynamicStreamBuf_data, DynamicStreamBuf, data_); O(DynamicStreamBuf_maxSize, DynamicStreamBuf, maxSize_); S(DynamicStreamBuf, DynamicStreamBuf);
  O(RawBuffer_data, RawBuffer, data_); O(RawBuffer_length, RawBuffer, length_); S(RawBuffer, RawBuffer);
  O(AddressParser_host, AddressParser, host_); O(AddressParser_port, AddressParser, port_); O(AddressParser_hasColon, AddressParser, hasColon_); O(AddressParser_family, AddressParser, family_); S(AddressParser, AddressParser);
  O(Address_port, Address, port_); S(Address, Address); O(Port_port, Port, port); S(Port, Port);
  O(Transport_toWrite, Tcp::Transport, toWrite); O(Transport_toWriteLock, Tcp::Transport, toWriteLock); S(Transport, Tcp::Transport);
  O(WriteEntry_deferred, Tcp::Transport::WriteEntry, deferred); O(WriteEntry_buffer, Tcp::Transport::WriteEntry, buffer); O(WriteEntry_flags, Tcp::Transport::WriteEntry, flags); O(WriteEntry_peerFd, Tcp::Transport::WriteEntry, peerFd); S(WriteEntry, Tcp::Transport::WriteEntry);
  O(BufferHolder_raw, Tcp::Transport::BufferHolder, _raw); O(BufferHolder_fd, Tcp::Transport::BufferHolder, _fd); O(BufferHolder_size, Tcp::Transport::BufferHolder, size_); O(BufferHolder_offset, Tcp::Transport::BufferHolder, offset_); O(BufferHolder_type, Tcp::Transport::BufferHolder, type); S(BufferHolder, Tcp::Transport::BufferHolder);
  O(Deferred_resolver, Async::Deferred<ssize_t>, resolver); O(Deferred_rejection, Async::Deferred<ssize_t>, rejection); S(Deferred, Async::Deferred<ssize_t>);
  O(Cookie_name, Cookie, name); O(Cookie_value, Cookie, value); O(Cookie_path, Cookie, path); O(Cookie_domain, Cookie, domain); O(Cookie_expires, Cookie, expires);
  O(Cookie_maxAge, Cookie, maxAge); O(Cookie_secure, Cookie, secure); O(Cookie_httpOnly, Cookie, httpOnly); O(Cookie_ext, Cookie, ext); S(Cookie, Cookie);
  printf("#define SIZEOF_OptString %zu\n", sizeof(std::optional<std::string>)); printf("#define SIZEOF_OptInt %zu\n", sizeof(std::optional<int>));
  O(MediaType_top, Mime::MediaType, top_); O(MediaType_sub, Mime::MediaType, sub_); O(MediaType_suffix, Mime::MediaType, suffix_); O(MediaType_raw, Mime::MediaType, raw_);
  O(MediaType_rawSubIndex, Mime::MediaType, rawSubIndex); O(MediaType_rawSuffixIndex, Mime::MediaType, rawSuffixIndex); O(MediaType_params, Mime::MediaType, params); O(MediaType_q, Mime::MediaType, q_); S(MediaType, Mime::MediaType);
  O(Transport_writesQueue, Tcp::Transport, writesQueue); O(Transport_timersQueue, Tcp::Transport, timersQueue); O(Transport_peersQueue, Tcp::Transport, peersQueue); O(Transport_notifier, Tcp::Transport, notifier);
  O(PollableQueue_event_fd, PollableQueue<Tcp::Transport::WriteEntry>, event_fd); S(FdSetEntry, Aio::FdSet::Entry); O(Event_flags, Polling::Event, flags); O(Event_tag, Polling::Event, tag);
  printf("#define VP_NOTIFY_READ %d\n#define VP_NOTIFY_WRITE %d\n", (int)Polling::NotifyOn::Read, (int)Polling::NotifyOn::Write);
  O(ResponseWriter_response, ResponseWriter, response_); O(ResponseWriter_buf, ResponseWriter, buf_); O(ResponseWriter_sent_bytes, ResponseWriter, sent_bytes_); O(ResponseWriter_transport, ResponseWriter, transport_); O(ResponseWriter_timeout, ResponseWriter, timeout_); S(ResponseWriter, ResponseWriter);
  O(CookieJar_cookies, CookieJar, cookies); S(CookieJar, CookieJar);
  { typedef std::pair<const std::string, CookieJar::HashMapCookies> E1; typedef std::pair<const std::string, Cookie> E2; printf("#define SIZEOF_JarOuterEntry %zu\n#define OFF_JarOuterEntry_second %zu\n#define SIZEOF_JarInnerEntry %zu\n#define OFF_JarInnerEntry_second %zu\n", sizeof(E1), offsetof(E1, second), sizeof(E2), offsetof(E2, second)); }
  O(Message_version_, Message, version_); O(Message_code_, Message, code_);
  O(Connection_control, Header::Connection, control_); O(Expect_expectation, Header::Expect, expectation_); S(HdrConnection, Header::Connection); S(HdrEncoding, Header::EncodingHeader); S(HdrExpect, Header::Expect); S(HdrContentLength, Header::ContentLength);
  printf("#define VP_CC_CLOSE %d\n#define VP_CC_KEEPALIVE %d\n#define VP_CC_EXT %d\n#define VP_EXPECT_CONTINUE %d\n#define VP_EXPECT_EXT %d\n", (int)ConnectionControl::Close, (int)ConnectionControl::KeepAlive, (int)ConnectionControl::Ext, (int)Expectation::Continue, (int)Expectation::Ext);
  printf("#define VP_ENC_CHUNKED %d\n", (int)Header::Encoding::Chunked);
  printf("#define VP_ENC_VALUES %d,%d,%d,%d,%d,%d\n", (int)Header::Encoding::Gzip, (int)Header::Encoding::Compress, (int)Header::Encoding::Deflate, (int)Header::Encoding::Identity, (int)Header::Encoding::Chunked, (int)Header::Encoding::Unknown);
  O(ResponseStream_response, ResponseStream, response_); O(ResponseStream_buf, ResponseStream, buf_); O(ResponseStream_transport, ResponseStream, transport_); S(ResponseStream, ResponseStream);
  O(CacheControl_directives, Header::CacheControl, directives_); S(CacheDirective, CacheDirective); O(CacheDirective_directive, CacheDirective, directive_);
  printf("#define VP_CD_MAXAGE %d\n#define VP_CD_MAXSTALE %d\n#define VP_CD_MINFRESH %d\n#define VP_CD_SMAXAGE %d\n#define VP_CD_EXT %d\n", (int)CacheDirective::MaxAge, (int)CacheDirective::MaxStale, (int)CacheDirective::MinFresh, (int)CacheDirective::SMaxAge, (int)CacheDirective::Ext);
  printf("#define SIZEOF_WriteDeque %zu\n", sizeof(std::deque<Tcp::Transport::WriteEntry>));
  printf("#define VP_MIME_TYPES ");
#define TYPE(val, str) printf("\"%s\",", str);
  MIME_TYPES
#undef TYPE
  printf("\n#define VP_MIME_SUBTYPES ");
#define SUB_TYPE(val, str) printf("\"%s\",", str);
  MIME_SUBTYPES
#undef SUB_TYPE
  printf("\n#define VP_MIME_SUFFIXES ");
#define SUFFIX(val, str, _) printf("\"%s\",", str);
  MIME_SUFFIXES
#undef SUFFIX
  printf("\n#define VP_MIME_TYPE_NONE %d\n#define VP_MIME_SUB_VENDOR %d\n#define VP_MIME_SUB_EXT %d\n#define VP_MIME_SUB_NONE %d\n#define VP_MIME_SUFFIX_NONE %d\n#define VP_MIME_SUFFIX_EXT %d\n",
         (int)Mime::Type::None, (int)Mime::Subtype::Vendor, (int)Mime::Subtype::Ext, (int)Mime::Subtype::None, (int)Mime::Suffix::None, (int)Mime::Suffix::Ext);
  printf("#define SIZEOF_OptQ %zu\n", sizeof(std::optional<Mime::Q>));
  printf("#define VP_METHOD_NAMES ");
#define METHOD(repr, str) printf("\"%s\",", str);
  HTTP_METHODS
#undef METHOD
  printf("\n");
  return 0;
}
