// Prints member offsets / sizes of the Pistache classes that harnesses address by layout (compiled and run on every check,
// so the harnesses follow refactorings of the headers).
#include <sstream>
#include <iostream>
#include <memory>
#include <string>
#include <vector>
#include <unordered_map>
#include <map>
#include <deque>
#include <array>
#include <mutex>
#include <atomic>
#include <chrono>
#include <functional>
#include <thread>
#include <condition_variable>
#include <future>
#include <optional>
#include <tuple>
#include <set>
#include <algorithm>
#include <regex>
#include <list>
#include <typeindex>
#include <iomanip>
#include <bitset>
#include <type_traits>
#include <stdexcept>
#include <limits>
#include <cstring>
#define private public
#define protected public
#include <pistache/http.h>
#include <pistache/transport.h>
#include <pistache/net.h>
#include <pistache/cookie.h>
#include <pistache/mime.h>
#include <cstdio>
#include <cstddef>
#pragma GCC diagnostic ignored "-Winvalid-offsetof"
using namespace Pistache;
using namespace Pistache::Http;
using namespace Pistache::Http::Private;
#define O(name, T, m) printf("#define OFF_%s %zu\n", #name, offsetof(T, m))
#define S(name, T) printf("#define SIZEOF_%s %zu\n", #name, sizeof(T))
int main() {
  O(Step_message, Step, message);
  O(BodyStep_chunk, BodyStep, chunk); O(BodyStep_bytesRead, BodyStep, bytesRead);
  O(Chunk_message, BodyStep::Chunk, message); O(Chunk_bytesRead, BodyStep::Chunk, bytesRead); O(Chunk_size, BodyStep::Chunk, size);
  O(Chunk_already, BodyStep::Chunk, alreadyAppendedChunkBytes);
  S(BodyStep, BodyStep); S(Chunk, BodyStep::Chunk);
  O(Message_version, Message, version_); O(Message_code, Message, code_); O(Message_body, Message, body_);
  O(Message_cookies, Message, cookies_); O(Message_headers, Message, headers_);
  O(Request_method, Request, method_); O(Request_resource, Request, resource_); O(Request_query, Request, query_);
  S(Request, Request); S(Response, Response); S(Message, Message);
  O(ContentLength_value, Header::ContentLength, value_); O(EncodingHeader_encoding, Header::EncodingHeader, encoding_);
  O(ParserBase_allSteps, ParserBase, allSteps); O(ParserBase_currentStep, ParserBase, currentStep);
  O(ParserBase_buffer, ParserBase, buffer); O(ParserBase_cursor, ParserBase, cursor);
  O(ArrayStreamBuf_bytes, ArrayStreamBuf<char>, bytes); O(ArrayStreamBuf_maxSize, ArrayStreamBuf<char>, maxSize);
  S(ArrayStreamBuf, ArrayStreamBuf<char>); S(ParserBase, ParserBase);
  O(RequestParser_request, RequestParser, request); O(RequestParser_time, RequestParser, time_); S(RequestParser, RequestParser);
  O(DynamicStreamBuf_data, DynamicStreamBuf, data_); O(DynamicStreamBuf_maxSize, DynamicStreamBuf, maxSize_); S(DynamicStreamBuf, DynamicStreamBuf);
  O(RawBuffer_data, RawBuffer, data_); O(RawBuffer_length, RawBuffer, length_); S(RawBuffer, RawBuffer);
  O(AddressParser_host, AddressParser, host_); O(AddressParser_port, AddressParser, port_); O(AddressParser_hasColon, AddressParser, hasColon_); O(AddressParser_family, AddressParser, family_); S(AddressParser, AddressParser);
  O(Address_port, Address, port_); S(Address, Address); O(Port_port, Port, port); S(Port, Port);
  O(Transport_toWrite, Tcp::Transport, toWrite); O(Transport_toWriteLock, Tcp::Transport, toWriteLock); S(Transport, Tcp::Transport);
  O(WriteEntry_deferred, Tcp::Transport::WriteEntry, deferred); O(WriteEntry_buffer, Tcp::Transport::WriteEntry, buffer); O(WriteEntry_flags, Tcp::Transport::WriteEntry, flags); O(WriteEntry_peerFd, Tcp::Transport::WriteEntry, peerFd); S(WriteEntry, Tcp::Transport::WriteEntry);
  O(BufferHolder_raw, Tcp::Transport::BufferHolder, _raw); O(BufferHolder_fd, Tcp::Transport::BufferHolder, _fd); O(BufferHolder_size, Tcp::Transport::BufferHolder, size_); O(BufferHolder_offset, Tcp::Transport::BufferHolder, offset_); O(BufferHolder_type, Tcp::Transport::BufferHolder, type); S(BufferHolder, Tcp::Transport::BufferHolder);
  O(Deferred_resolver, Async::Deferred<ssize_t>, resolver); O(Deferred_rejection, Async::Deferred<ssize_t>, rejection); S(Deferred, Async::Deferred<ssize_t>);
  printf("#define SIZEOF_WriteDeque %zu\n", sizeof(std::deque<Tcp::Transport::WriteEntry>));
  printf("#define VP_METHOD_NAMES ");
#define METHOD(repr, str) printf("\"%s\",", str);
  HTTP_METHODS
#undef METHOD
  printf("\n");
  return 0;
}
