/* C16(a): consistency of the case-insensitive hash and equality that every header map uses (real code of
 * http_headers.h / http_headers.cc through harness/w_c16.cc, inl mode, real std::string SSO code).
 * For all strings a, b of length <= L over all 256 byte values:
 *   lower(a) is the bytewise C-locale lower-casing of a (LowercaseHash hashes exactly lower(key));
 *   LowercaseEqual(a,b)  <=>  lower(a) == lower(b)   (equal keys hash equally AND any capitalisation is found);
 *   LowercaseEqualStatic(a, lit) == LowercaseEqual(a, lit) for lower-case lit.                                   */
#include "vp.h"
#include "libc.h"
#include "str_real.h"
void vp_lower(u8* s, u64 n, u8* out);
u32 vp_equal(u8* a, u64 na, u8* b, u64 nb);
u32 vp_equal_static(u8* a, u64 na, u8* b, u64 nb);
#ifndef L
#define L 4
#endif
static u8 lc(u8 c) { return (c >= 'A' && c <= 'Z') ? c + 32 : c; }
int main(void) {
#ifndef REAL
  __ir_init_globals();
#endif
  VP_IN(u64, na, "na"); VP_IN(u64, nb, "nb"); __CPROVER_assume(na <= L && nb <= L);
  u8 a[L + 1], b[L + 1];
  for (int i = 0; i < L; i++) { VP_SET(u8, a[i], "a"); VP_SET(u8, b[i], "b"); }
  a[L] = 0; b[L] = 0;
  u8 la[16], lb[16];
  vp_lower(a, na, la); vp_lower(b, nb, lb);
#ifndef REAL
  __CPROVER_assert(!vp_take_exception(), "no exception");
#endif
  __CPROVER_assert(la[15] == na && lb[15] == nb, "toLowercase keeps the length");
  for (u64 i = 0; i < L; i++) if (i < na) { VP_OBS("la", la[i]); __CPROVER_assert(la[i] == lc(a[i]), "toLowercase folds exactly A-Z, bytewise (C locale)"); }
  int same = na == nb; for (u64 i = 0; i < L; i++) if (same && i < na && la[i] != lb[i]) same = 0;
  u32 eq = vp_equal(a, na, b, nb);
  VP_OBS("eq", eq);
  __CPROVER_assert((eq != 0) == (same != 0), "LowercaseEqual(a,b) <=> toLowercase(a) == toLowercase(b): equal keys hash equally, and every capitalisation of a stored name is found");
  /* static variant against a lower-case literal */
  int blow = 1; for (u64 i = 0; i < L; i++) if (i < nb && lc(b[i]) != b[i]) blow = 0;
  if (blow) { u32 es = vp_equal_static(a, na, b, nb); VP_OBS("es", es); __CPROVER_assert((es != 0) == (eq != 0), "LowercaseEqualStatic agrees with LowercaseEqual for a lower-case literal"); }
  VP_END("witness: end of harness reached");
  return 0;
}
