/* C04(c) / C14: Http::Handler::onInput (src/common/http.cc, sel mode): what happens at every way a read can end.
 * The parser (feed / parse / reset), the response writer, the user's onRequest and the header collection are recording stubs whose
 * outcomes the solver chooses: feed accepts or refuses (request too large); parse answers Again or Done, or throws HttpError with an
 * arbitrary status code, or another std::exception.
 * Asserted:  Again  -> nothing is answered, nothing is handed to the handler and the parser is NOT reset (parsing resumes);
 *            Done   -> the request of this connection's parser is handed to onRequest exactly once, nothing else is sent, and the
 *                      parser is reset afterwards (the next request starts from a fresh parser);
 *            refused feed -> exactly one response, with 413, the request is never handed to the handler, parser reset afterwards;
 *            HttpError(code) -> exactly one response carrying that code, no handler call, parser reset afterwards;
 *            other exception -> exactly one 500, no handler call, parser reset afterwards;
 *            a reset never precedes the use of the request it would wipe.                                                        */
#include "vp.h"
#include "libc.h"
#include "ghost.h"
#include "offsets.h"
void _ZN8Pistache4Http7Handler7onInputEPKcmRKSt10shared_ptrINS_3Tcp4PeerEE(u8*, u8*, u64, u8*);
static u8 parser_obj[SIZEOF_RequestParser] __attribute__((aligned(8))); static u8 peer_obj[8], transport_obj[8], addr_obj[64];
static u8 conn_hdr[16] __attribute__((aligned(8)));
static int seq, n_feed, n_parse, n_reset, n_onreq, n_send, n_writer, seq_reset_first = -1, seq_onreq = -1, seq_send = -1; static u32 sent_code; static u8* onreq_request;
static u8 feed_ok, parse_mode, has_conn; static u32 err_code;    /* parse_mode: 0 Again, 1 Done, 2 HttpError, 3 runtime_error */
u8 _ZTIN8Pistache4Http9HttpErrorE[24] __attribute__((aligned(8)));
void _ZN8Pistache4Http7Handler9getParserERKSt10shared_ptrINS_3Tcp4PeerEE(u8* ret, u8* peer) { (void)peer; *(u8**)ret = parser_obj; *(u8**)(ret + 8) = 0; }
u8* _ZNKSt19__shared_ptr_accessIN8Pistache4Http7Private10ParserImplINS1_7RequestEEELN9__gnu_cxx12_Lock_policyE2ELb0ELb0EEptEv(u8* sp) { return *(u8**)sp; }
void _ZNSt12__shared_ptrIN8Pistache4Http7Private10ParserImplINS1_7RequestEEELN9__gnu_cxx12_Lock_policyE2EED2Ev(u8* sp) { (void)sp; }
u8 _ZN8Pistache4Http7Private10ParserBase4feedEPKcm(u8* p, u8* d, u64 n) { (void)d; (void)n; __CPROVER_assert(p == parser_obj && n_reset == 0, "the bytes are fed to this connection's parser, before any reset"); n_feed++; seq++; return feed_ok; }
static void throw_obj(u8* ti) { u8* o = (u8*)malloc(24); __CPROVER_assume(o != 0); VP_EXC_SETVT(o); __ir_exc_obj = o; __ir_exc_type = ti; __ir_exc_pending = 1; }
u32 _ZN8Pistache4Http7Private10ParserBase5parseEv(u8* p) { __CPROVER_assert(p == parser_obj && n_feed == 1 && feed_ok, "parse runs once, after an accepted feed"); n_parse++; seq++;
  if (parse_mode == 2) { throw_obj(_ZTIN8Pistache4Http9HttpErrorE); return 0; } if (parse_mode == 3) { throw_obj(_ZTISt13runtime_error); return 0; }
  return parse_mode == 1 ? 2u : 0u; }                                  /* State::Again = 0, Next = 1, Done = 2 */
void _ZN8Pistache4Http7Private10ParserImplINS0_7RequestEE5resetEv(u8* p) { __CPROVER_assert(p == parser_obj, "reset of this connection's parser"); n_reset++; if (seq_reset_first < 0) seq_reset_first = seq; seq++; }
void _ZN8Pistache4Http7Private10ParserBase5resetEv(u8* p) { _ZN8Pistache4Http7Private10ParserImplINS0_7RequestEE5resetEv(p); }
/* HttpError thrown by onInput itself (413) and its accessors */
static u32 thrown_code;
void _ZN8Pistache4Http9HttpErrorC1ENS0_4CodeENSt7__cxx1112basic_stringIcSt11char_traitsIcESaIcEEE(u8* self, u32 code, u8* msg) { (void)msg; VP_EXC_SETVT(self); thrown_code = code; }
void _ZN8Pistache4Http9HttpErrorD1Ev(u8* s) { (void)s; } void _ZN8Pistache4Http9HttpErrorD2Ev(u8* s) { (void)s; } void _ZN8Pistache4Http9HttpErrorD0Ev(u8* s) { (void)s; }
u32 _ZNK8Pistache4Http9HttpError4codeEv(u8* e) { (void)e; return parse_mode == 2 && feed_ok ? err_code : thrown_code; }
void _ZNK8Pistache4Http9HttpError6reasonB5cxx11Ev(u8* ret, u8* e) { (void)e; GS(ret)->p = (u8*)"reason"; GS(ret)->len = 6; }
u8* _ZNK8Pistache4Http9HttpError4whatEv(u8* e) { (void)e; return (u8*)"what"; }
/* response writer, transport, peer */
u8* _ZN8Pistache3Tcp7Handler9transportEv(u8* h) { (void)h; return transport_obj; }
void _ZN8Pistache4Http14ResponseWriterC2ENS0_7VersionEPNS_3Tcp9TransportEPNS0_7HandlerESt8weak_ptrINS3_4PeerEE(u8* w, u32 ver, u8* tr, u8* h, u8* peer) { (void)w; (void)ver; (void)h; (void)peer; __CPROVER_assert(tr == transport_obj, "the writer is bound to this handler's transport"); n_writer++; }
void _ZN8Pistache4Http14ResponseWriterC2EOS1_(u8* d, u8* s) { (void)d; (void)s; }
void _ZN8Pistache4Http14ResponseWriterD2Ev(u8* w) { (void)w; }
void _ZN8Pistache4Http14ResponseWriter4sendENS0_4CodeERKNSt7__cxx1112basic_stringIcSt11char_traitsIcESaIcEEERKNS0_4Mime9MediaTypeE(u8* ret, u8* w, u32 code, u8* body, u8* mime) { (void)ret; (void)w; (void)body; (void)mime; n_send++; sent_code = code; seq_send = seq++; }
void _ZN8Pistache5Async7PromiseIlED2Ev(u8* p) { (void)p; }
void _ZN8Pistache4Http4Mime9MediaTypeC2Ev(u8* m) { (void)m; }
void _ZNSt13unordered_mapINSt7__cxx1112basic_stringIcSt11char_traitsIcESaIcEEES5_St4hashIS5_ESt8equal_toIS5_ESaISt4pairIKS5_S5_EEED2Ev(u8* m) { (void)m; }
void _ZNSt13unordered_mapINSt7__cxx1112basic_stringIcSt11char_traitsIcESaIcEEES5_St4hashIS5_ESt8equal_toIS5_ESaISt4pairIKS5_S5_EEEC2Ev(u8* m) { (void)m; }
void _ZNSt8optionalIN8Pistache4Http4Mime1QEEC2Ev(u8* o) { (void)o; }
u8* _ZNKSt19__shared_ptr_accessIN8Pistache3Tcp4PeerELN9__gnu_cxx12_Lock_policyE2ELb0ELb0EEptEv(u8* sp) { return *(u8**)sp; }
u8* _ZNK8Pistache3Tcp4Peer7addressEv(u8* p) { (void)p; return addr_obj; }
void _ZN8Pistache4Http7Request11copyAddressERKNS_7AddressE(u8* r, u8* a) { __CPROVER_assert(r == parser_obj + OFF_RequestParser_request && a == addr_obj, "the peer's address is recorded in this parser's request"); }
void _ZNSt8weak_ptrIN8Pistache3Tcp4PeerEEC2IS2_vEERKSt10shared_ptrIT_E(u8* w, u8* s) { *(u8**)w = *(u8**)s; *(u8**)(w + 8) = 0; }
void _ZNSt10__weak_ptrIN8Pistache3Tcp4PeerELN9__gnu_cxx12_Lock_policyE2EED2Ev(u8* w) { (void)w; }
/* Connection header of the request copied to the response */
void _ZN8Pistache4Http6Header10Collection6tryGetERKNSt7__cxx1112basic_stringIcSt11char_traitsIcESaIcEEE(u8* ret, u8* coll, u8* name) { (void)coll; (void)name; *(u8**)ret = has_conn ? conn_hdr : (u8*)0; *(u8**)(ret + 8) = 0; }
void _ZSt19static_pointer_castIN8Pistache4Http6Header10ConnectionENS2_6HeaderEESt10shared_ptrIT_ERKS5_IT0_E(u8* ret, u8* sp) { *(u8**)ret = *(u8**)sp; *(u8**)(ret + 8) = 0; }
u8 _ZNKSt12__shared_ptrIN8Pistache4Http6Header10ConnectionELN9__gnu_cxx12_Lock_policyE2EEcvbEv(u8* sp) { return *(u8**)sp != 0; }
u8* _ZNKSt19__shared_ptr_accessIN8Pistache4Http6Header10ConnectionELN9__gnu_cxx12_Lock_policyE2ELb0ELb0EEptEv(u8* sp) { return *(u8**)sp; }
void _ZNSt12__shared_ptrIN8Pistache4Http6Header10ConnectionELN9__gnu_cxx12_Lock_policyE2EED2Ev(u8* sp) { (void)sp; }
void _ZNSt12__shared_ptrIN8Pistache4Http6Header6HeaderELN9__gnu_cxx12_Lock_policyE2EED2Ev(u8* sp) { (void)sp; }
static u32 added_control; static int n_added;
u8* _ZN8Pistache4Http6Header10Collection3addINS1_10ConnectionEJNS0_17ConnectionControlEEEENSt9enable_ifIXsr8IsHeaderIT_EE5valueERS2_E4typeEDpOT0_(u8* coll, u8* ctl) { n_added++; added_control = *(u32*)ctl; return coll; }
/* the user's handler: Http::Handler::onRequest (pure virtual, vtable slot 6) */
void vp_on_request(u8* self, u8* request, u8* response) { (void)self; (void)response; n_onreq++; onreq_request = request; seq_onreq = seq++; __CPROVER_assert(n_reset == 0, "the request is handed to the handler before the parser is reset"); }
static void* handler_vt[12] = { 0, 0, 0, 0, 0, 0, (void*)vp_on_request, 0, 0, 0, 0, 0 };
static struct { void** vptr; u8 rest[64]; } handler_obj = { handler_vt, { 0 } };
void __ir_indirect_rvoid_u8p_u8p_u8p(u8* fp, u8* a0, u8* a1, u8* a2) { if (fp == (u8*)vp_on_request) { vp_on_request(a0, a1, a2); return; } __ir_bad_indirect(); }
int main(void) {
  __ir_init_globals();
  ((__ir_ti*)_ZTIN8Pistache4Http9HttpErrorE)->vptr = _ZTVN10__cxxabiv120__si_class_type_infoE + 16; ((__ir_ti*)_ZTIN8Pistache4Http9HttpErrorE)->base = _ZTISt9exception;
  VP_SET(u8, feed_ok, "feed_ok"); VP_SET(u8, parse_mode, "parse_mode"); VP_SET(u8, has_conn, "has_connection_header"); VP_SET(u32, err_code, "err_code");
  __CPROVER_assume(feed_ok <= 1 && parse_mode <= 3 && has_conn <= 1 && err_code >= 400 && err_code <= 599);
  VP_SET(u32, *(u32*)(conn_hdr + OFF_Connection_control), "control");
  static void* parser_vt[6] = { 0, 0, (void*)_ZN8Pistache4Http7Private10ParserImplINS0_7RequestEE5resetEv, 0, 0, 0 };   /* slots 0,1 destructors, 2 reset() */
  *(void***)parser_obj = parser_vt;
  static u8 data[4]; u8* peer_sp[2] = { peer_obj, 0 };
  _ZN8Pistache4Http7Handler7onInputEPKcmRKSt10shared_ptrINS_3Tcp4PeerEE((u8*)&handler_obj, data, 4, (u8*)peer_sp);
  __CPROVER_assert(!vp_take_exception(), "onInput lets no exception escape into the transport");
  __CPROVER_assert(n_feed == 1, "the bytes are fed exactly once");
  if (feed_ok && parse_mode == 0) __CPROVER_assert(n_reset == 0 && n_send == 0 && n_onreq == 0 && n_writer == 0, "incomplete request: nothing is answered and the parser keeps its state");
  else if (feed_ok && parse_mode == 1) {
    __CPROVER_assert(n_onreq == 1 && onreq_request == parser_obj + OFF_RequestParser_request, "a complete request is handed to the handler exactly once");
    __CPROVER_assert(n_send == 0, "the framework itself answers nothing for a complete request");
    __CPROVER_assert(n_reset >= 1 && seq_reset_first > seq_onreq, "the parser is reset after the request has been handed over: the next request starts fresh");
  } else {
    u32 want = !feed_ok ? 413u : parse_mode == 2 ? err_code : 500u;
    __CPROVER_assert(n_onreq == 0, "a refused or malformed request never reaches the handler");
    __CPROVER_assert(n_send == 1 && sent_code == want, "exactly one error response with the right status (413 too large / the parser's code / 500)");
    __CPROVER_assert(n_reset >= 1, "the parser is reset after an error: nothing of the failed message leaks into the next one");
  }
  VP_END("witness: end of harness reached");
  return 0;
}
