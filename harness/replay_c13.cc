// Native replay of a C13 counterexample schedule against the REAL PollableQueue<int> (real std::thread, real eventfd),
// compiled with -DPISTACHE_VERIF_HOOKS: pistache_verif_yield() hands control back to a baton-passing scheduler that follows
// the schedule found by the solver, with exactly the scheduling rules of harness/c13_queue.c.
//   usage: replay_c13 NPROD NPUSH < "sched v" lines (VP_REPLAY file)      exit 3 = property violated, 0 = held
#include <sstream>
#include <iostream>
#include <string>
#include <vector>
#include <mutex>
#include <condition_variable>
#include <thread>
#include <atomic>
#include <memory>
#include <functional>
#include <cstdio>
#include <cstdlib>
#include <cstring>
#include <poll.h>
#include <sys/eventfd.h>
#define private public
#define protected public
#include <pistache/mailbox.h>
using namespace Pistache;

struct Th { std::mutex m; std::condition_variable cv; bool run = false; bool yielded = false; bool done = false; bool started = false; std::function<void()> body; std::thread th; };
static thread_local Th* self = nullptr;
static void resume(Th& t) {   // scheduler side: let t run until it yields or finishes
  std::unique_lock<std::mutex> l(t.m);
  t.yielded = false; t.run = true; t.cv.notify_all();
  t.cv.wait(l, [&] { return t.yielded || t.done; });
}
extern "C" void pistache_verif_yield(int) {
  Th& t = *self; std::unique_lock<std::mutex> l(t.m);
  t.yielded = true; t.run = false; t.cv.notify_all();
  t.cv.wait(l, [&] { return t.run; });
}
static void start(Th& t, std::function<void()> f) {
  t.done = false; t.yielded = false; t.run = false; t.body = std::move(f);
  if (t.th.joinable()) t.th.join();
  t.th = std::thread([&t] { self = &t; { std::unique_lock<std::mutex> l(t.m); t.cv.wait(l, [&] { return t.run; }); }
                            t.body(); std::unique_lock<std::mutex> l(t.m); t.done = true; t.run = false; t.cv.notify_all(); });
  resume(t);   // run the thread-local prefix up to the first shared access
}
static bool readable(int fd) { struct pollfd p = { fd, POLLIN, 0 }; return poll(&p, 1, 0) == 1 && (p.revents & POLLIN); }

int main(int argc, char** argv) {
  int NPROD = argc > 1 ? atoi(argv[1]) : 2, NPUSH = argc > 2 ? atoi(argv[2]) : 1;
  std::vector<int> sched; { const char* f = getenv("VP_REPLAY"); FILE* fp = f ? fopen(f, "r") : stdin; char nm[64]; long long v; while (fscanf(fp, "%63s %lld", nm, &v) == 2) if (!strcmp(nm, "sched")) sched.push_back((int)v); }
  PollableQueue<int> q; q.event_fd = eventfd(0, EFD_NONBLOCK);
  std::vector<std::unique_ptr<Th>> prod; std::vector<int> pdone(NPROD, 0);
  Th cons; bool draining = false; std::vector<int> popped; std::vector<int> out;
  auto push_body = [&](int p) { return [&q, p, &pdone] { q.push(p * 16 + 1 + pdone[p]); }; };
  for (int p = 0; p < NPROD; p++) { prod.emplace_back(new Th); start(*prod[p], push_body(p)); }
  for (int t : sched) {
    if (t >= 0 && t < NPROD) {   // (the normalisation assumptions of the harness only restrict which schedules the solver picks)
      if (pdone[t] < NPUSH) { Th& th = *prod[t]; if (!th.done) resume(th); if (th.done) { pdone[t]++; if (pdone[t] < NPUSH) start(th, push_body(t)); } }
    } else if (t == NPROD) {
      if (!draining) { if (readable(q.event_fd)) { draining = true; out.clear(); start(cons, [&] { for (;;) { auto e = q.popSafe(); if (!e) break; out.push_back(*e); } }); } }
      else if (!cons.done) resume(cons);
      if (draining && cons.done) { for (int v : out) popped.push_back(v); draining = false; }
    }
  }
  bool all = true; for (int p = 0; p < NPROD; p++) if (pdone[p] < NPUSH) all = false;
  if (!all || draining) { printf("ASSUME-VIOLATED: schedule does not end in a quiescent state\n"); fflush(stdout); _exit(4); }
  int linked = 0; for (auto* e = q.tail->next.load(); e; e = e->next.load()) linked++;
  printf("popped=%zu linked=%d notification_pending=%d\n", popped.size(), linked, (int)readable(q.event_fd));
  int rc = 0;
  if ((int)popped.size() + linked != NPROD * NPUSH) { printf("ASSERT-FAIL: no loss: popped + still queued == pushed\n"); rc = 3; }
  for (size_t i = 0; i < popped.size(); i++) for (size_t j = i + 1; j < popped.size(); j++) {
    if (popped[i] == popped[j]) { printf("ASSERT-FAIL: every item is popped at most once\n"); rc = 3; }
    if ((popped[i] - 1) / 16 == (popped[j] - 1) / 16 && popped[i] > popped[j]) { printf("ASSERT-FAIL: items of one producer come out in push order\n"); rc = 3; } }
  if (linked > 0 && !readable(q.event_fd)) { printf("ASSERT-FAIL: no missed wake-up: an item is queued, the consumer is idle, and the eventfd is not readable\n"); rc = 3; }
  fflush(stdout);
  for (auto& p : prod) if (p->th.joinable()) p->th.detach();
  if (cons.th.joinable()) cons.th.detach();
  _exit(rc);
}
