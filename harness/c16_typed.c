/* C16(c): typed headers, write -> parse -> write (src/common/http_header.cc, sel mode; ostream = byte log; StreamCursor primitives =
 * the contracts proven by C03).  For every value the type can hold: writing the header and parsing the written text (through the
 * public parse(std::string) path: NUL-terminated text) yields an equal header, and writing that again yields identical text.
 *   H_CONN: Connection (Close, Keep-Alive, Ext)      H_ENC: Content-/Transfer-Encoding (all six encodings)
 *   H_EXPECT: Expect (100-continue, other)           H_CLEN: Content-Length (every value of 1..NDIG digits, and 2^64-1)           */
#define VP_OSMAX 32
#include "vp.h"
#include "libc.h"
#include "ghost_more.h"
#include "cursor_contract.h"
#include "offsets.h"
#define P_ "_ZN8Pistache4Http6Header"
void _ZN8Pistache4Http6Header10Connection8parseRawEPKcm(u8*, u8*, u64); void _ZNK8Pistache4Http6Header10Connection5writeERSo(u8*, u8*);
void _ZN8Pistache4Http6Header14EncodingHeader8parseRawEPKcm(u8*, u8*, u64); void _ZNK8Pistache4Http6Header14EncodingHeader5writeERSo(u8*, u8*);
void _ZN8Pistache4Http6Header6Expect8parseRawEPKcm(u8*, u8*, u64); void _ZNK8Pistache4Http6Header6Expect5writeERSo(u8*, u8*);
void _ZN8Pistache4Http6Header13ContentLength5parseERKNSt7__cxx1112basic_stringIcSt11char_traitsIcESaIcEEE(u8*, u8*); void _ZNK8Pistache4Http6Header13ContentLength5writeERSo(u8*, u8*);
void _ZN8Pistache4Http6Header12CacheControl8parseRawEPKcm(u8*, u8*, u64); void _ZNK8Pistache4Http6Header12CacheControl5writeERSo(u8*, u8*);
/* environment (RawStreamBuf construction) */
void _ZNSt6localeC1Ev(u8* l) { (void)l; } void _ZNSt6localeD1Ev(u8* l) { (void)l; }
void _ZNSt15basic_streambufIcSt11char_traitsIcEED2Ev(u8* s) { (void)s; }
void _ZNSt15basic_streambufIcSt11char_traitsIcEE5imbueERKSt6locale(u8* s, u8* l) { (void)s; (void)l; }
u8* _ZNSt15basic_streambufIcSt11char_traitsIcEE6setbufEPcl(u8* s, u8* p, u64 n) { (void)p; (void)n; return s; }
u64 _ZNSt15basic_streambufIcSt11char_traitsIcEE6xsgetnEPcl(u8* s, u8* p, u64 n) { (void)s; (void)p; (void)n; return 0; }
u64 _ZNSt15basic_streambufIcSt11char_traitsIcEE6xsputnEPKcl(u8* s, u8* p, u64 n) { (void)s; (void)p; (void)n; return 0; }
agg16_8 _ZNSt15basic_streambufIcSt11char_traitsIcEE7seekoffElSt12_Ios_SeekdirSt13_Ios_Openmode(u8* s, u64 o, u32 d, u32 m) { (void)s; (void)o; (void)d; (void)m; agg16_8 r = { { 0 } }; return r; }
agg16_8 _ZNSt15basic_streambufIcSt11char_traitsIcEE7seekposESt4fposI11__mbstate_tESt13_Ios_Openmode(u8* s, u64 a, u64 b, u32 m) { (void)s; (void)a; (void)b; (void)m; agg16_8 r = { { 0 } }; return r; }
/* Content-Length digits: chosen by the harness; ostream::_M_insert<unsigned long> prints them; std::stoull reads them back */
#ifndef NDIG
#define NDIG 4
#endif
static u8 cl_dig[24]; static u64 cl_nd, cl_val;
u8* _ZNSo9_M_insertImEERSoT_(u8* os, u64 v) { __CPROVER_assert(v == cl_val, "the Content-Length value written is the header's"); gos_put((gos_t*)os, cl_dig, cl_nd, 20); return os; }
u64 _ZNSt7__cxx116stoullERKNS_12basic_stringIcSt11char_traitsIcESaIcEEEPmi(u8* s, u8* pos, u32 base) {
  u8* end = 0; vp_errno = 0; u64 v = vp_strtox(GS(s)->p, &end, base, 0);
  if (end == GS(s)->p) { vp_throw_std(_ZTISt16invalid_argument); return 0; }
  if (vp_errno == 34) { vp_throw_std(_ZTISt12out_of_range); return 0; }
  if (pos) *(u64*)pos = (u64)(end - GS(s)->p); return v; }
u64 _ZNSt7__cxx115stollERKNS_12basic_stringIcSt11char_traitsIcESaIcEEEPmi(u8* s, u8* pos, u32 base) {   /* std::stoll: same scanner, signed range */
  u8* end = 0; vp_errno = 0; u64 v = vp_strtox(GS(s)->p, &end, base, 1);
  if (end == GS(s)->p) { vp_throw_std(_ZTISt16invalid_argument); return 0; }
  if (vp_errno == 34) { vp_throw_std(_ZTISt12out_of_range); return 0; }
  if (pos) *(u64*)pos = (u64)(end - GS(s)->p); return v; }
/* CacheControl: std::vector<CacheDirective> = ghost { count, (directive, delta)[2] } per header object; os << long prints the harness's digits */
typedef struct { u64 n; u32 dir[2]; u64 delta[2]; } gcd_t;
static gcd_t cdv[2]; static u8 cd_tmp[2][SIZEOF_CacheDirective] __attribute__((aligned(8)));
static u8 cc_dig[8]; static u64 cc_nd, cc_val;
u8* _ZNSo9_M_insertIlEERSoT_(u8* os, u64 v) { __CPROVER_assert(v == cc_val, "the delta-seconds written is the directive's"); gos_put((gos_t*)os, cc_dig, cc_nd, 8); return os; }
static gos_t os1, os2; static u8 hdr1[48] __attribute__((aligned(8))), hdr2[48] __attribute__((aligned(8)));
static gcd_t* cdv_of(u8* v) { return v == hdr1 + OFF_CacheControl_directives ? &cdv[0] : &cdv[1]; }
u64 _ZNKSt6vectorIN8Pistache4Http14CacheDirectiveESaIS2_EE4sizeEv(u8* v) { return cdv_of(v)->n; }
u8* _ZNKSt6vectorIN8Pistache4Http14CacheDirectiveESaIS2_EEixEm(u8* v, u64 i) { gcd_t* g = cdv_of(v); __CPROVER_assert(i < g->n, "directive index inside the vector"); u8* t = cd_tmp[i & 1]; *(u32*)(t + OFF_CacheDirective_directive) = g->dir[i & 1]; *(u64*)(t + 8) = g->delta[i & 1]; return t; }
u64 _ZNK8Pistache4Http14CacheDirective5deltaEv(u8* d) { return *(u64*)(d + 8); }
static u8* cd_push(u8* v, u32 dir, u64 delta) { gcd_t* g = cdv_of(v); __CPROVER_assert(g->n < 2, "ghost directive vector capacity"); if (g->n < 2) { g->dir[g->n] = dir; g->delta[g->n] = delta; g->n++; } return cd_tmp[0]; }
u8* _ZNSt6vectorIN8Pistache4Http14CacheDirectiveESaIS2_EE12emplace_backIJRKNS2_9DirectiveEEEERS2_DpOT_(u8* v, u8* dir) { return cd_push(v, *(u32*)dir, 0); }
u8* _ZNSt6vectorIN8Pistache4Http14CacheDirectiveESaIS2_EE12emplace_backIJRKNS2_9DirectiveENSt6chrono8durationIlSt5ratioILl1ELl1EEEEEEERS2_DpOT_(u8* v, u8* dir, u8* secs) { return cd_push(v, *(u32*)dir, *(u64*)secs); }
static void same_text(void) { __CPROVER_assert(os1.len == os2.len, "writing the parsed header again yields text of the same length"); for (u64 i = 0; i < VP_OSMAX; i++) if (i < os1.len && os1.len == os2.len) __CPROVER_assert(os1.log[i] == os2.log[i], "writing the parsed header again yields identical text"); }
int main(void) {
  __ir_init_globals(); gos_init(&os1, VP_OSMAX - 1); gos_init(&os2, VP_OSMAX - 1);
#if defined(H_CONN)
  u32 v; VP_SET(u32, v, "control"); __CPROVER_assume(v == VP_CC_CLOSE || v == VP_CC_KEEPALIVE || v == VP_CC_EXT);
  *(u32*)(hdr1 + OFF_Connection_control) = v; *(u32*)(hdr2 + OFF_Connection_control) = 77;
  _ZNK8Pistache4Http6Header10Connection5writeERSo(hdr1, (u8*)&os1); os1.log[os1.len] = 0;
  _ZN8Pistache4Http6Header10Connection8parseRawEPKcm(hdr2, os1.log, os1.len);
  __CPROVER_assert(!vp_take_exception() && !os1.failed, "the written Connection value is accepted");
  __CPROVER_assert(*(u32*)(hdr2 + OFF_Connection_control) == v, "Connection: write -> parse yields the same control");
  _ZNK8Pistache4Http6Header10Connection5writeERSo(hdr2, (u8*)&os2); same_text();
#elif defined(H_ENC)
  static const u32 encs[] = { VP_ENC_VALUES }; u32 k; VP_SET(u32, k, "enc_index"); __CPROVER_assume(k < sizeof encs / sizeof encs[0]); u32 v = encs[k];
  *(u32*)(hdr1 + OFF_EncodingHeader_encoding) = v; *(u32*)(hdr2 + OFF_EncodingHeader_encoding) = 77;
  _ZNK8Pistache4Http6Header14EncodingHeader5writeERSo(hdr1, (u8*)&os1); os1.log[os1.len] = 0;
  _ZN8Pistache4Http6Header14EncodingHeader8parseRawEPKcm(hdr2, os1.log, os1.len);
  __CPROVER_assert(!vp_take_exception() && !os1.failed, "the written encoding is accepted");
  __CPROVER_assert(*(u32*)(hdr2 + OFF_EncodingHeader_encoding) == v, "Content-/Transfer-Encoding: write -> parse yields the same encoding");
  _ZNK8Pistache4Http6Header14EncodingHeader5writeERSo(hdr2, (u8*)&os2); same_text();
#elif defined(H_EXPECT)
  u32 v; VP_SET(u32, v, "expectation"); __CPROVER_assume(v == VP_EXPECT_CONTINUE || v == VP_EXPECT_EXT);
  *(u32*)(hdr1 + OFF_Expect_expectation) = v; *(u32*)(hdr2 + OFF_Expect_expectation) = 77;
  _ZNK8Pistache4Http6Header6Expect5writeERSo(hdr1, (u8*)&os1); os1.log[os1.len] = 0;
  _ZN8Pistache4Http6Header6Expect8parseRawEPKcm(hdr2, os1.log, os1.len);
  __CPROVER_assert(!vp_take_exception() && !os1.failed, "the written expectation is accepted");
  __CPROVER_assert(*(u32*)(hdr2 + OFF_Expect_expectation) == v, "Expect: write -> parse yields the same expectation");
  _ZNK8Pistache4Http6Header6Expect5writeERSo(hdr2, (u8*)&os2); same_text();
#elif defined(H_CLEN)
#ifdef CL_MAX
  { const char* d = "18446744073709551615"; cl_nd = 20; for (int i = 0; i < 20; i++) cl_dig[i] = (u8)d[i]; cl_val = ~(u64)0; }
#else
  VP_SET(u64, cl_nd, "ndigits"); __CPROVER_assume(cl_nd >= 1 && cl_nd <= NDIG); cl_val = 0;
  for (int i = 0; i < NDIG; i++) { VP_SET(u8, cl_dig[i], "digit"); __CPROVER_assume(cl_dig[i] >= '0' && cl_dig[i] <= '9'); if (i < (int)cl_nd) cl_val = cl_val * 10 + (cl_dig[i] - '0'); }
  __CPROVER_assume(cl_nd == 1 || cl_dig[0] != '0');
#endif
  *(u64*)(hdr1 + OFF_ContentLength_value) = cl_val; *(u64*)(hdr2 + OFF_ContentLength_value) = 77;
  _ZNK8Pistache4Http6Header13ContentLength5writeERSo(hdr1, (u8*)&os1); os1.log[os1.len] = 0;
  gstr_t text = { os1.log, os1.len, { 0, 0 } };
  _ZN8Pistache4Http6Header13ContentLength5parseERKNSt7__cxx1112basic_stringIcSt11char_traitsIcESaIcEEE(hdr2, (u8*)&text);
  __CPROVER_assert(!vp_take_exception() && !os1.failed, "the written Content-Length is accepted");
  __CPROVER_assert(*(u64*)(hdr2 + OFF_ContentLength_value) == cl_val, "Content-Length: write -> parse yields the same value");
  _ZNK8Pistache4Http6Header13ContentLength5writeERSo(hdr2, (u8*)&os2); same_text();
#elif defined(H_CACHE)
  u32 dir; VP_SET(u32, dir, "directive"); __CPROVER_assume(dir < VP_CD_EXT);
#ifdef DIRFIX
  dir = DIRFIX;      /* one query per directive kind keeps the written text concrete up to the digits */
#endif
  int timed = dir == VP_CD_MAXAGE || dir == VP_CD_MAXSTALE || dir == VP_CD_MINFRESH || dir == VP_CD_SMAXAGE;
#ifndef CCDIG
#define CCDIG 3
#endif
  VP_SET(u64, cc_nd, "ndigits"); __CPROVER_assume(cc_nd >= 1 && cc_nd <= CCDIG); cc_val = 0;
  for (int i = 0; i < CCDIG; i++) { VP_SET(u8, cc_dig[i], "digit"); __CPROVER_assume(cc_dig[i] >= '0' && cc_dig[i] <= '9'); if (i < (int)cc_nd) cc_val = cc_val * 10 + (cc_dig[i] - '0'); }
  __CPROVER_assume(cc_nd == 1 || cc_dig[0] != '0');
#ifdef EXCLUDE_ZERO_DELTA
  if (timed) __CPROVER_assume(cc_val != 0);
#endif
  cdv[0].n = 1; cdv[0].dir[0] = dir; cdv[0].delta[0] = timed ? cc_val : 0; cdv[1].n = 0;
  _ZNK8Pistache4Http6Header12CacheControl5writeERSo(hdr1, (u8*)&os1); os1.log[os1.len] = 0;
  __CPROVER_assert(!vp_take_exception() && !os1.failed, "write does not fail");
  _ZN8Pistache4Http6Header12CacheControl8parseRawEPKcm(hdr2, os1.log, os1.len);
  __CPROVER_assert(!vp_take_exception(), "the written Cache-Control directive is accepted by the parser");
  __CPROVER_assert(cdv[1].n == 1 && cdv[1].dir[0] == dir && cdv[1].delta[0] == cdv[0].delta[0], "Cache-Control: write -> parse yields the same directive and delta-seconds");
  _ZNK8Pistache4Http6Header12CacheControl5writeERSo(hdr2, (u8*)&os2); same_text();
#endif
  VP_END("witness: end of harness reached");
  return 0;
}
