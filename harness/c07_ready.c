/* C07 (event dispatch): Transport::onReady and the real Transport::handleWriteQueue (src/common/transport.cc, sel mode).
 * Together with the would-block step of asyncWriteImpl (c06_write.c, -DONLY_C07) these obligations carry the invariant behind
 * "once the stalled socket accepts data again, everything pending for it is delivered" under edge-triggered polling:
 *   (I) a descriptor whose write queue is non-empty has Read|Write interest armed since its last drain attempt:
 *       asyncWriteImpl arms it when it stops at a would-block (drain harness); handleWriteQueue arms it when it makes an empty
 *       queue non-empty (H_QUEUE here);
 *   (II) every writable event for a descriptor with pending writes leads to a drain attempt -- also when the same event is
 *       readable, because an edge-triggered writable event is not reported again (H_EVENT here).
 * H_EVENT: one poll event for descriptor FD with arbitrary Read/Write/Hangup flags; FD has pending writes; the readable handler
 *          may close the peer (its queue disappears).  Asserted: readable => handleIncoming once; writable and the queue still
 *          there => Read-only interest set and asyncWriteImpl(FD) called exactly once; nothing is thrown when the peer was closed
 *          while handling the readable part.
 * H_QUEUE: an event for the write mailbox; popSafe yields 0..2 entries for arbitrary descriptors.  Asserted: every entry of a
 *          known peer is appended to that peer's queue, in order, under the lock; afterwards every descriptor whose queue was
 *          made non-empty has Read|Write interest armed; entries of unknown descriptors are dropped without touching the map.   */
#include "vp.h"
#include "libc.h"
#include "ghost.h"
#include "offsets.h"
#define FD 7
#define OTHERFD 9
#define NOTIFIER_TAG 33
void _ZN8Pistache3Tcp9Transport7onReadyERKNS_3Aio5FdSetE(u8*, u8*);
static u8 transport[SIZEOF_Transport] __attribute__((aligned(8)));
static u8 reactor_obj[8];
typedef struct { u8 b[SIZEOF_FdSetEntry]; } ev_t;
static ev_t events[2]; static int nevents;
u8* _ZNKSt6vectorIN8Pistache3Aio5FdSet5EntryESaIS3_EE5beginEv(u8* v) { (void)v; return (u8*)&events[0]; }
u8* _ZNKSt6vectorIN8Pistache3Aio5FdSet5EntryESaIS3_EE3endEv(u8* v) { (void)v; return (u8*)&events[nevents]; }
u64 _ZNK8Pistache8NotifyFd3tagEv(u8* n) { (void)n; return NOTIFIER_TAG; }
/* ---- recording stubs */
static int n_incoming, n_drain, n_modify_r, n_modify_rw[2], n_other_handlers, held, peer_closed_by_read; static int order_err;
static int presentA = 1; static u8 read_closes;
static int qlen[2], qlen0[2]; static int pushed_fd[4]; static int npushed; static int map_touched_unlocked;
static int idx(u32 fd) { return fd == FD ? 0 : 1; }
u8 _ZNK8Pistache3Tcp9Transport8isPeerFdENS_7Polling3TagE(u8* t, u64 tag) { (void)t; return tag == FD || tag == OTHERFD; }
u8 _ZNK8Pistache3Tcp9Transport8isPeerFdEi(u8* t, u32 fd) { (void)t; return fd == FD || fd == OTHERFD; }
u8 _ZNK8Pistache3Tcp9Transport9isTimerFdENS_7Polling3TagE(u8* t, u64 tag) { (void)t; (void)tag; return 0; }
static u8 peer_sp[16];
u8* _ZN8Pistache3Tcp9Transport7getPeerENS_7Polling3TagE(u8* t, u64 tag) { (void)t; (void)tag; return peer_sp; }
void _ZN8Pistache3Tcp9Transport14handleIncomingERKSt10shared_ptrINS0_4PeerEE(u8* t, u8* p) {
  (void)t; __CPROVER_assert(p == peer_sp, "handleIncoming receives the peer of the event"); n_incoming++;
  if (read_closes) { presentA = 0; peer_closed_by_read = 1; }      /* disconnect seen while reading: removePeer erased the queue */
  if (n_drain) order_err = 1; }
void _ZN8Pistache3Tcp9Transport14asyncWriteImplEi(u8* t, u32 fd) { (void)t; __CPROVER_assert(fd == FD, "the drain attempt is for the descriptor of the event"); __CPROVER_assert(!held, "asyncWriteImpl is entered without toWriteLock held (it takes it itself)"); n_drain++; }
void _ZN8Pistache3Tcp9Transport12handleNotifyEv(u8* t) { (void)t; n_other_handlers++; }
void _ZN8Pistache3Tcp9Transport15handlePeerQueueEv(u8* t) { (void)t; n_other_handlers++; }
void _ZN8Pistache3Tcp9Transport16handleTimerQueueEv(u8* t) { (void)t; n_other_handlers++; }
void _ZN8Pistache3Tcp9Transport11handleTimerENS1_10TimerEntryE(u8* t, u8* e) { (void)t; (void)e; n_other_handlers++; }
void _ZN8Pistache3Aio7Reactor8modifyFdERKNS1_3KeyEiNS_7Polling8NotifyOnENS5_4ModeE(u8* r, u8* key, u32 fd, u32 interest, u32 mode) {
  (void)key; (void)mode; __CPROVER_assert(r == reactor_obj, "interest is changed on the transport's reactor");
  if (interest == VP_NOTIFY_READ) { if (fd == FD) n_modify_r++; }
  else if (interest == (VP_NOTIFY_READ | VP_NOTIFY_WRITE)) n_modify_rw[idx(fd)]++;
  else __CPROVER_assert(0, "interest is either Read or Read|Write"); }
void _ZNSt10lock_guardISt5mutexEC2ERS0_(u8* g, u8* m) { (void)g; __CPROVER_assert(m == transport + OFF_Transport_toWriteLock && !held, "toWriteLock taken once"); held = 1; }
void _ZNSt10lock_guardISt5mutexED2Ev(u8* g) { (void)g; held = 0; }
/* ---- toWrite: unordered_map<Fd, deque<WriteEntry>> */
static u8 nodeA[8 + SIZEOF_WriteDeque], nodeB[8 + SIZEOF_WriteDeque];
u8* _ZNSt13unordered_mapIiSt5dequeIN8Pistache3Tcp9Transport10WriteEntryESaIS4_EESt4hashIiESt8equal_toIiESaISt4pairIKiS6_EEE4findERSC_(u8* m, u8* k) {
  (void)m; if (!held) map_touched_unlocked = 1; if (*(u32*)k == FD) return presentA ? (u8*)nodeA : (u8*)0; return nodeB; }
u8* _ZSt3endISt13unordered_mapIiSt5dequeIN8Pistache3Tcp9Transport10WriteEntryESaIS5_EESt4hashIiESt8equal_toIiESaISt4pairIKiS7_EEEEDTcldtfp_3endEERT_(u8* m) { (void)m; return 0; }
u8 _ZNSt8__detaileqERKNS_19_Node_iterator_baseISt4pairIKiSt5dequeIN8Pistache3Tcp9Transport10WriteEntryESaIS7_EEELb0EEESD_(u8* a, u8* b) { return *(u8**)a == *(u8**)b; }
u8* _ZNSt13unordered_mapIiSt5dequeIN8Pistache3Tcp9Transport10WriteEntryESaIS4_EESt4hashIiESt8equal_toIiESaISt4pairIKiS6_EEEixERSC_(u8* m, u8* k) {
  (void)m; if (!held) map_touched_unlocked = 1; __CPROVER_assert(*(u32*)k == FD || *(u32*)k == OTHERFD, "only queues of known peers are created"); return *(u32*)k == FD ? nodeA + 8 : nodeB + 8; }
void _ZNSt5dequeIN8Pistache3Tcp9Transport10WriteEntryESaIS3_EE9push_backEOS3_(u8* dq, u8* e) {
  if (!held) map_touched_unlocked = 1; int i = dq == nodeA + 8 ? 0 : 1; u32 pf = *(u32*)(e + OFF_WriteEntry_peerFd);
  __CPROVER_assert(pf == (i == 0 ? FD : OTHERFD), "an entry is appended to the queue of its own descriptor");
  qlen[i]++; if (npushed < 4) pushed_fd[npushed] = (int)pf; npushed++; }
u8 _ZNKSt5dequeIN8Pistache3Tcp9Transport10WriteEntryESaIS3_EE5emptyEv(u8* dq) { if (!held) map_touched_unlocked = 1; return qlen[dq == nodeA + 8 ? 0 : 1] == 0; }
u64 _ZNKSt5dequeIN8Pistache3Tcp9Transport10WriteEntryESaIS3_EE4sizeEv(u8* dq) { if (!held) map_touched_unlocked = 1; return (u64)qlen[dq == nodeA + 8 ? 0 : 1]; }
/* ---- write mailbox: popSafe() yields the scripted entries, then null */
static u8 wentries[2][SIZEOF_WriteEntry] __attribute__((aligned(8))); static int nmail, mail_pos;
void _ZN8Pistache5QueueINS_3Tcp9Transport10WriteEntryEE7popSafeEv(u8* ret, u8* q) { (void)q; if (mail_pos < nmail) { *(u8**)ret = wentries[mail_pos]; mail_pos++; } else *(u8**)ret = 0; }
u8 _ZNKSt10unique_ptrIN8Pistache3Tcp9Transport10WriteEntryESt14default_deleteIS3_EEcvbEv(u8* up) { return *(u8**)up != 0; }
u8* _ZNKSt10unique_ptrIN8Pistache3Tcp9Transport10WriteEntryESt14default_deleteIS3_EEptEv(u8* up) { return *(u8**)up; }
u8* _ZNKSt10unique_ptrIN8Pistache3Tcp9Transport10WriteEntryESt14default_deleteIS3_EEdeEv(u8* up) { return *(u8**)up; }
void _ZNSt10unique_ptrIN8Pistache3Tcp9Transport10WriteEntryESt14default_deleteIS3_EED2Ev(u8* up) { (void)up; }
/* timers map: not reached (isTimerFd is false) */
u8* _ZNSt13unordered_mapIiN8Pistache3Tcp9Transport10TimerEntryESt4hashIiESt8equal_toIiESaISt4pairIKiS3_EEE4findERS9_(u8* m, u8* k) { (void)m; (void)k; __CPROVER_assert(0, "timers map not reached"); return 0; }
u64 _ZNSt13unordered_mapIiN8Pistache3Tcp9Transport10TimerEntryESt4hashIiESt8equal_toIiESaISt4pairIKiS3_EEE5eraseERS9_(u8* m, u8* k) { (void)m; (void)k; return 0; }
u8* _ZNKSt8__detail14_Node_iteratorISt4pairIKiN8Pistache3Tcp9Transport10TimerEntryEELb0ELb0EEptEv(u8* it) { return *(u8**)it; }
void _ZNSt10shared_ptrIN8Pistache5Async7Private4CoreEEC2EOS4_(u8* d, u8* s) { *(u8**)d = *(u8**)s; *(u8**)(d + 8) = 0; *(u8**)s = 0; }
void _ZNSt12__shared_ptrIN8Pistache5Async7Private4CoreELN9__gnu_cxx12_Lock_policyE2EED2Ev(u8* s) { (void)s; }

int main(void) {
  __ir_init_globals();
  *(u8**)(transport + 8) = reactor_obj;                                        /* Aio::Handler::reactor_ */
  *(u32*)(transport + OFF_Transport_writesQueue + OFF_PollableQueue_event_fd) = 21;
  *(u32*)(transport + OFF_Transport_timersQueue + OFF_PollableQueue_event_fd) = 22;
  *(u32*)(transport + OFF_Transport_peersQueue + OFF_PollableQueue_event_fd) = 23;
#if defined(H_EVENT)
  u32 fl; VP_SET(u32, fl, "flags"); __CPROVER_assume(fl <= 15);
  VP_SET(u8, read_closes, "read_closes"); __CPROVER_assume(read_closes <= 1);
  *(u32*)(events[0].b + OFF_Event_flags) = fl; *(u64*)(events[0].b + OFF_Event_tag) = FD; nevents = 1;
  qlen[0] = 1;
  _ZN8Pistache3Tcp9Transport7onReadyERKNS_3Aio5FdSetE(transport, (u8*)events);
  int thr = vp_take_exception();
  int rd = (fl & VP_NOTIFY_READ) != 0, wr = (fl & VP_NOTIFY_WRITE) != 0;
  __CPROVER_assert(n_incoming == rd, "a readable event is handed to handleIncoming exactly once");
  __CPROVER_assert(!order_err, "the readable part is handled before the drain attempt");
  if (wr && !(rd && read_closes)) {
    __CPROVER_assert(!thr, "a writable event for a descriptor with pending writes raises nothing");
    __CPROVER_assert(n_drain == 1, "a writable event for a descriptor with pending writes leads to exactly one drain attempt, also when the event is readable as well (edge-triggered: it is not reported again)");
  }
  if (wr && rd && read_closes) { __CPROVER_assert(!thr, "a peer closed while handling the readable part of the event is not an error for its writable part"); __CPROVER_assert(n_drain == 0, "no drain attempt for a closed peer"); }
  if (!wr) __CPROVER_assert(n_drain == 0 && !thr, "no drain attempt without a writable event");
  __CPROVER_assert(!held && !map_touched_unlocked, "toWrite is only accessed under toWriteLock, which is released on return");
  __CPROVER_assert(n_other_handlers == 0 && npushed == 0, "an event for a peer descriptor runs no mailbox handler");
#elif defined(H_QUEUE)
  *(u32*)(events[0].b + OFF_Event_flags) = VP_NOTIFY_READ; *(u64*)(events[0].b + OFF_Event_tag) = 21; nevents = 1;
  u32 nm; VP_SET(u32, nm, "nmail"); __CPROVER_assume(nm <= 2); nmail = (int)nm;
  u32 fds[2]; for (int i = 0; i < 2; i++) { VP_SET(u32, fds[i], "entry_fd"); __CPROVER_assume(fds[i] == FD || fds[i] == OTHERFD || fds[i] == 99); *(u32*)(wentries[i] + OFF_WriteEntry_peerFd) = fds[i]; }
  u32 q0, q1; VP_SET(u32, q0, "qlen"); VP_SET(u32, q1, "qlen"); __CPROVER_assume(q0 <= 2 && q1 <= 2); qlen[0] = qlen0[0] = (int)q0; qlen[1] = qlen0[1] = (int)q1;
  _ZN8Pistache3Tcp9Transport7onReadyERKNS_3Aio5FdSetE(transport, (u8*)events);
  __CPROVER_assert(!vp_take_exception(), "draining the write mailbox raises nothing");
  int want[2] = { 0, 0 }, k = 0;
  for (int i = 0; i < 2; i++) if (i < nmail && fds[i] != 99) { want[idx(fds[i])]++; __CPROVER_assert(k < npushed && pushed_fd[k] == (int)fds[i], "entries reach the per-descriptor queues in the order they were posted"); k++; }
  __CPROVER_assert(npushed == k, "exactly the entries of known peers are queued, each once");
  __CPROVER_assert(mail_pos == nmail, "the mailbox is drained completely");
  for (int i = 0; i < 2; i++) {
    __CPROVER_assert(qlen[i] == qlen0[i] + want[i], "queue length grows by the entries posted for that descriptor");
    if (qlen0[i] == 0 && qlen[i] > 0) __CPROVER_assert(n_modify_rw[i] >= 1, "a descriptor whose write queue became non-empty has Read|Write interest armed");
 }
  __CPROVER_assert(!held && !map_touched_unlocked, "toWrite is only accessed under toWriteLock, which is released on return");
  __CPROVER_assert(n_drain == 0 && n_incoming == 0, "the mailbox event itself neither reads nor drains (no flush requested)");
#endif
  VP_END("witness: end of harness reached");
  return 0;
}
