/* C05(b''): the ResponseStream constructor (src/common/http.cc, sel mode): the head of a streamed (chunked) response.
 * Same ghost ostream / token model as c05_wire.c, SYMBOLIC capacity of the response buffer.  Asserted: if the head fits, the
 * tokens are exactly: status line, each cookie once ("Set-Cookie: " cookie CRLF), each header once, "Transfer-Encoding" ": "
 * <chunked> CRLF, CRLF; if ANY piece does not fit the constructor throws (no half-written head is left for a later flush).        */
#include "vp.h"
#include "libc.h"
#include "ghost.h"
#include "offsets.h"
void _ZN8Pistache4Http14ResponseStreamC2EONS0_7MessageESt8weak_ptrINS_3Tcp4PeerEEPNS5_9TransportENS0_7TimeoutEmm(u8*, u8*, u8*, u8*, u8*, u64, u64);
/* ------------------------------------------------------------------ ghost ostream objects over one capped byte counter */
u8 _ZTVSo[96] __attribute__((aligned(8)));          /* vtable of std::ostream: [0] = offset of the virtual base basic_ios (8) */
enum { T_STR = 1, T_CHAR, T_VERSION, T_INT, T_CODE, T_HDRWRITE, T_COOKIE, T_CLEN, T_WRITE, T_ENC };
typedef struct { u32 kind; u32 cut; u64 a; u64 b; } tok_t;
#define MAXTOK 48
static tok_t toks[MAXTOK]; static int ntok; static u64 total, cap;
#define NOS 6
static u8* os_ios[NOS]; static int os_failed[NOS]; static int nos;
static int os_of_ios(u8* ios) { for (int i = 0; i < NOS; i++) if (i < nos && os_ios[i] == ios) return i; __CPROVER_assert(0, "ostream object known to the model"); return 0; }
void _ZNSt9basic_iosIcSt11char_traitsIcEEC2Ev(u8* ios) { (void)ios; }
void _ZNSt9basic_iosIcSt11char_traitsIcEED2Ev(u8* ios) { (void)ios; }
static u8* the_buf;
void _ZNSt9basic_iosIcSt11char_traitsIcEE4initEPSt15basic_streambufIcS1_E(u8* ios, u8* sb) {
  __CPROVER_assert(sb == the_buf, "every ostream of putOnWire writes into the response buffer"); __CPROVER_assert(nos < NOS, "number of ostream objects within the harness bound");
  os_ios[nos] = ios; os_failed[nos] = 0; nos++; }
u8 _ZNKSt9basic_iosIcSt11char_traitsIcEEntEv(u8* ios) { return os_failed[os_of_ios(ios)] != 0; }
static void put(u8* os, u32 kind, u64 a, u64 b, u64 nbytes) {
  int o = os_of_ios(os + 8);
  if (os_failed[o]) return;
  u64 room = cap - total;
  __CPROVER_assert(ntok < MAXTOK, "token log large enough (harness bound)");
  if (ntok < MAXTOK) { toks[ntok].kind = kind; toks[ntok].a = a; toks[ntok].b = b; toks[ntok].cut = nbytes > room; ntok++; }
  if (nbytes > room) { total = cap; os_failed[o] = 1; } else total += nbytes; }
static u64 lit_len(u8* p) { u64 n = 0; while (p[n]) n++; return n; }
u8* _ZStlsISt11char_traitsIcEERSt13basic_ostreamIcT_ES5_PKc(u8* os, u8* lit) { put(os, T_STR, (u64)lit, lit_len(lit), lit_len(lit)); return os; }
u8* _ZStlsISt11char_traitsIcEERSt13basic_ostreamIcT_ES5_c(u8* os, u8 c) { put(os, T_CHAR, c, 1, 1); return os; }
u8* _ZNSo5writeEPKcl(u8* os, u8* p, u64 n) { put(os, T_WRITE, (u64)p, n, n); return os; }
static u64 len_code;                                            /* byte length of the reason phrase: arbitrary, fixed */
u8* _ZN8Pistache4HttplsERSoNS0_7VersionE(u8* os, u32 v) { put(os, T_VERSION, v, 0, 8); return os; }
u8* _ZNSolsEi(u8* os, u32 v) { put(os, T_INT, v, 0, 3); return os; }
u8* _ZN8Pistache4HttplsERSoNS0_4CodeE(u8* os, u32 c) { put(os, T_CODE, c, 0, len_code); return os; }
/* ------------------------------------------------------------------ typed headers: fake objects with a vtable (name(), write()) */
#define NHDR 2
static u64 n_hdr; static u64 len_hdr[NHDR]; 
#ifdef HDR_TE   /* the handler declared a transfer coding of its own (say gzip): "chunked" must still be announced, as the final coding */
static const char* const hdr_names[NHDR] = { "Server", "Transfer-Encoding" };
#else
static const char* const hdr_names[NHDR] = { "Server", "X-Trace" };
#endif
u8* vp_hdr_name(u8* self);
void vp_hdr_write(u8* self, u8* os);
static void* hdr_vt[8] = { 0, 0, (void*)vp_hdr_name, 0, 0, (void*)vp_hdr_write, 0, 0 };   /* slots: 0,1 dtors 2 name 3 parse 4 parseRaw 5 write (checked by the dispatchers) */
static struct { void** vptr; } hdr_obj[NHDR] = { { hdr_vt }, { hdr_vt } };
u8* vp_hdr_name(u8* self) { return (u8*)hdr_names[self == (u8*)&hdr_obj[0] ? 0 : 1]; }
void vp_hdr_write(u8* self, u8* os) { int k = self == (u8*)&hdr_obj[0] ? 0 : 1; put(os, T_HDRWRITE, (u64)k, 0, len_hdr[k]); }
u8* __ir_indirect_ru8p_u8p(u8* fp, u8* a0) { if (fp == (u8*)vp_hdr_name) return vp_hdr_name(a0); if (fp == (u8*)vp_exc_what) return vp_exc_what(a0); __ir_bad_indirect(); return 0; }
void __ir_indirect_rvoid_u8p_u8p(u8* fp, u8* a0, u8* a1) { if (fp == (u8*)vp_hdr_write) { vp_hdr_write(a0, a1); return; } __ir_bad_indirect(); }
typedef struct { u8* p; u8* c; } sp_t;
static sp_t hdr_list[NHDR];
/* lookups by name in the handler's header collection (not used by the code as it is; a change that consults the collection gets the truth) */
u8 _ZNK8Pistache4Http6Header10Collection3hasERKNSt7__cxx1112basic_stringIcSt11char_traitsIcESaIcEEE(u8* coll, u8* name) { (void)coll; for (u64 i = 0; i < NHDR; i++) if (i < n_hdr && gs_eq_lit(name, hdr_names[i])) return 1; return 0; }
void _ZNK8Pistache4Http6Header10Collection4listEv(u8* ret, u8* coll) { (void)coll; *(u8**)ret = (u8*)&hdr_list[0]; *(u8**)(ret + 8) = (u8*)&hdr_list[n_hdr]; *(u8**)(ret + 16) = (u8*)&hdr_list[n_hdr]; }
u8* _ZNSt6vectorISt10shared_ptrIN8Pistache4Http6Header6HeaderEESaIS5_EE5beginEv(u8* v) { return *(u8**)v; }
u8* _ZNSt6vectorISt10shared_ptrIN8Pistache4Http6Header6HeaderEESaIS5_EE3endEv(u8* v) { return *(u8**)(v + 8); }
void _ZNSt6vectorISt10shared_ptrIN8Pistache4Http6Header6HeaderEESaIS5_EED2Ev(u8* v) { (void)v; }
u8* _ZNKSt19__shared_ptr_accessIN8Pistache4Http6Header6HeaderELN9__gnu_cxx12_Lock_policyE2ELb0ELb0EEptEv(u8* sp) { return *(u8**)sp; }
/* Content-Length header built by writeHeader<ContentLength>(os, len) */
void _ZNK8Pistache4Http6Header13ContentLength5writeERSo(u8* h, u8* os) { put(os, T_CLEN, *(u64*)(h + OFF_ContentLength_value), 0, 1); }
void _ZNK8Pistache4Http6Header14EncodingHeader5writeERSo(u8* h, u8* os) { put(os, T_ENC, *(u32*)(h + OFF_EncodingHeader_encoding), 0, 7); }
void _ZN8Pistache4Http6Header14EncodingHeaderC2ENS1_8EncodingE(u8* h, u32 e) { *(u32*)(h + OFF_EncodingHeader_encoding) = e; }
void _ZN8Pistache4Http6Header6HeaderD2Ev(u8* h) { (void)h; }
static u8 stream[SIZEOF_ResponseStream] __attribute__((aligned(8))), message[SIZEOF_Message] __attribute__((aligned(8)));
void _ZN8Pistache16DynamicStreamBufC1Emm(u8* sb, u64 sz, u64 mx) { (void)sz; __CPROVER_assert(sb == stream + OFF_ResponseStream_buf, "the stream buffer is constructed in place"); cap = mx; }
void _ZN8Pistache16DynamicStreamBufD2Ev(u8* sb) { (void)sb; }
void _ZN8Pistache4Http7MessageC2EOS1_(u8* d, u8* s) { __CPROVER_assert(d == stream + OFF_ResponseStream_response && s == message, "the response message is moved into the stream"); *(u32*)(d + OFF_Message_version_) = *(u32*)(s + OFF_Message_version_); *(u32*)(d + OFF_Message_code_) = *(u32*)(s + OFF_Message_code_); }
void _ZN8Pistache4Http7MessageD2Ev(u8* m) { (void)m; }
void _ZN8Pistache4Http7TimeoutC2EOS1_(u8* d, u8* s) { (void)d; (void)s; }
void _ZN8Pistache4Http7TimeoutD2Ev(u8* t) { (void)t; }
void _ZNSt10__weak_ptrIN8Pistache3Tcp4PeerELN9__gnu_cxx12_Lock_policyE2EED2Ev(u8* w) { (void)w; }
void _ZNSt8weak_ptrIN8Pistache3Tcp4PeerEEC2EOS3_(u8* d, u8* s) { (void)d; (void)s; }
/* ------------------------------------------------------------------ cookie jar: unordered_map<name, unordered_map<value, Cookie>> */
typedef struct { gstr_t key; u8 second[SIZEOF_JarOuterEntry - 32]; } outer_t;
typedef struct { gstr_t key; u8 cookie[SIZEOF_JarInnerEntry - 32]; } inner_t;
_Static_assert(sizeof(outer_t) == SIZEOF_JarOuterEntry && sizeof(inner_t) == SIZEOF_JarInnerEntry, "jar entry layouts");
typedef struct { u64 n; u8* e; } gm_t;
static outer_t outer[2 + 1]; static inner_t inner[2][2 + 1]; static u64 n_outer, n_inner[2]; static u64 len_cookie;
#define OM "St13unordered_mapINSt7__cxx1112basic_stringIcSt11char_traitsIcESaIcEEES_IS5_N8Pistache4Http6CookieESt4hashIS5_ESt8equal_toIS5_ESaISt4pairIKS5_S8_EEESA_SC_SaISD_ISE_SH_EEE"
u8* _ZNKSt13unordered_mapINSt7__cxx1112basic_stringIcSt11char_traitsIcESaIcEEES_IS5_N8Pistache4Http6CookieESt4hashIS5_ESt8equal_toIS5_ESaISt4pairIKS5_S8_EEESA_SC_SaISD_ISE_SH_EEE5beginEv(u8* m) { (void)m; return (u8*)&outer[0]; }
u8* _ZNKSt13unordered_mapINSt7__cxx1112basic_stringIcSt11char_traitsIcESaIcEEES_IS5_N8Pistache4Http6CookieESt4hashIS5_ESt8equal_toIS5_ESaISt4pairIKS5_S8_EEESA_SC_SaISD_ISE_SH_EEE3endEv(u8* m) { (void)m; return (u8*)&outer[n_outer]; }
u8* _ZNKSt13unordered_mapINSt7__cxx1112basic_stringIcSt11char_traitsIcESaIcEEEN8Pistache4Http6CookieESt4hashIS5_ESt8equal_toIS5_ESaISt4pairIKS5_S8_EEE5beginEv(u8* m) { return ((gm_t*)m)->e; }
u8* _ZNKSt13unordered_mapINSt7__cxx1112basic_stringIcSt11char_traitsIcESaIcEEEN8Pistache4Http6CookieESt4hashIS5_ESt8equal_toIS5_ESaISt4pairIKS5_S8_EEE3endEv(u8* m) { return ((gm_t*)m)->e + ((gm_t*)m)->n * sizeof(inner_t); }
void _ZNSt8__detail20_Node_const_iteratorISt4pairIKNSt7__cxx1112basic_stringIcSt11char_traitsIcESaIcEEEN8Pistache4Http6CookieEELb0ELb1EEC2Ev(u8* it) { *(u8**)it = 0; }
void _ZNSt8__detail20_Node_const_iteratorISt4pairIKNSt7__cxx1112basic_stringIcSt11char_traitsIcESaIcEEESt13unordered_mapIS7_N8Pistache4Http6CookieESt4hashIS7_ESt8equal_toIS7_ESaIS1_IS8_SC_EEEELb0ELb1EEC2Ev(u8* it) { *(u8**)it = 0; }
u8* _ZNSt8__detail20_Node_const_iteratorISt4pairIKNSt7__cxx1112basic_stringIcSt11char_traitsIcESaIcEEEN8Pistache4Http6CookieEELb0ELb1EEppEv(u8* it) { *(u8**)it += sizeof(inner_t); return it; }
u8* _ZNSt8__detail20_Node_const_iteratorISt4pairIKNSt7__cxx1112basic_stringIcSt11char_traitsIcESaIcEEESt13unordered_mapIS7_N8Pistache4Http6CookieESt4hashIS7_ESt8equal_toIS7_ESaIS1_IS8_SC_EEEELb0ELb1EEppEv(u8* it) { *(u8**)it += sizeof(outer_t); return it; }
u8* _ZNKSt8__detail20_Node_const_iteratorISt4pairIKNSt7__cxx1112basic_stringIcSt11char_traitsIcESaIcEEEN8Pistache4Http6CookieEELb0ELb1EEptEv(u8* it) { return *(u8**)it; }
u8* _ZNKSt8__detail20_Node_const_iteratorISt4pairIKNSt7__cxx1112basic_stringIcSt11char_traitsIcESaIcEEESt13unordered_mapIS7_N8Pistache4Http6CookieESt4hashIS7_ESt8equal_toIS7_ESaIS1_IS8_SC_EEEELb0ELb1EEptEv(u8* it) { return *(u8**)it; }
u8 _ZNSt8__detaileqERKNS_19_Node_iterator_baseISt4pairIKNSt7__cxx1112basic_stringIcSt11char_traitsIcESaIcEEEN8Pistache4Http6CookieEELb1EEESF_(u8* a, u8* b) { return *(u8**)a == *(u8**)b; }
u8 _ZNSt8__detailneERKNS_19_Node_iterator_baseISt4pairIKNSt7__cxx1112basic_stringIcSt11char_traitsIcESaIcEEESt13unordered_mapIS7_N8Pistache4Http6CookieESt4hashIS7_ESt8equal_toIS7_ESaIS1_IS8_SC_EEEELb1EEESN_(u8* a, u8* b) { return *(u8**)a != *(u8**)b; }
/* the jar iterator hands out COPIES of the stored cookies: a cookie's identity is a tag in its first word, carried over by the copy constructor */
void _ZN8Pistache4Http6CookieC2ERKS1_(u8* d, u8* s) { *(u64*)d = *(u64*)s; }
void _ZN8Pistache4Http6CookieD2Ev(u8* c) { (void)c; }
u8* _ZN8Pistache4HttplsERSoRKNS0_6CookieE(u8* os, u8* c) { put(os, T_COOKIE, *(u64*)c, 0, len_cookie); return os; }
/* ------------------------------------------------------------------ the rest of the environment: recording stubs */
static u8 writer[SIZEOF_ResponseWriter] __attribute__((aligned(8))); static u8 transport_obj[8], peer_obj[8];
static int n_async, n_rejected, n_then, n_disarm; static u64 async_size; static u32 async_fd; static u8* result_obj;
void _ZNK8Pistache16DynamicStreamBuf6bufferEv(u8* ret, u8* sb) { __CPROVER_assert(sb == the_buf, "the buffer handed on is the response buffer"); *(u64*)(ret + OFF_RawBuffer_length) = total; }
u64 _ZNK8Pistache9RawBuffer4sizeEv(u8* rb) { return *(u64*)(rb + OFF_RawBuffer_length); }
void _ZN8Pistache9RawBufferD2Ev(u8* rb) { (void)rb; }
void _ZN8Pistache4Http7Timeout6disarmEv(u8* t) { (void)t; n_disarm++; }
void _ZNK8Pistache4Http14ResponseWriter4peerEv(u8* ret, u8* w) { (void)w; *(u8**)ret = peer_obj; *(u8**)(ret + 8) = 0; }
u8* _ZNKSt19__shared_ptr_accessIN8Pistache3Tcp4PeerELN9__gnu_cxx12_Lock_policyE2ELb0ELb0EEptEv(u8* sp) { return *(u8**)sp; }
void _ZNSt12__shared_ptrIN8Pistache3Tcp4PeerELN9__gnu_cxx12_Lock_policyE2EED2Ev(u8* sp) { (void)sp; }
u32 _ZNK8Pistache3Tcp4Peer2fdEv(u8* p) { (void)p; return 7; }
void _ZN8Pistache3Tcp9Transport10asyncWriteINS_9RawBufferEEENS_5Async7PromiseIlEEiRKT_i(u8* ret, u8* tr, u32 fd, u8* buffer, u32 flags) {
  (void)ret; (void)flags; __CPROVER_assert(tr == transport_obj, "the write goes to the writer's transport"); n_async++; async_fd = fd; async_size = *(u64*)(buffer + OFF_RawBuffer_length); }
void _ZN8Pistache5Async7PromiseIlE4thenISt8functionIFS2_lEES4_IFvRNSt15__exception_ptr13exception_ptrEEEEENS1_INS0_6detail13RemovePromiseINSC_13FunctionTraitIT_E10ReturnTypeEE4TypeEEESF_T0_(u8* ret, u8* self, u8* f1, u8* f2) { (void)self; (void)f1; (void)f2; n_then++; result_obj = ret; }
void _ZN8Pistache5Async7PromiseIlE8rejectedINS_5ErrorEEES2_T_(u8* ret, u8* e) { (void)e; n_rejected++; result_obj = ret; }
void _ZN8Pistache5Async7PromiseIlE8rejectedISt13runtime_errorEES2_T_(u8* ret, u8* e) { (void)e; n_rejected++; result_obj = ret; }
void _ZN8Pistache5Async7PromiseIlE8rejectedINSt15__exception_ptr13exception_ptrEEES2_T_(u8* ret, u8* e) { (void)ret; (void)e; __CPROVER_assert(0, "continuation bodies are not run in this harness"); }
void _ZN8Pistache5Async7PromiseIlED2Ev(u8* p) { (void)p; }
void _ZN8Pistache5Async7PromiseIlED0Ev(u8* p) { (void)p; }
void _ZN8Pistache5ErrorC1EPKc(u8* e, u8* m) { (void)m; VP_EXC_SETVT(e); }
void _ZN8Pistache5ErrorD1Ev(u8* e) { (void)e; }
void _ZNSt14_Function_baseC2Ev(u8* f) { *(u64*)(f + 16) = 0; }
void _ZNSt14_Function_baseD2Ev(u8* f) { (void)f; }
u8* _ZNSt9_Any_data9_M_accessEv(u8* a) { return a; }
u8* _ZNKSt9_Any_data9_M_accessEv(u8* a) { return a; }
void _ZNSt13runtime_errorC1ERKS_(u8* d, u8* s) { (void)s; VP_EXC_SETVT(d); }

static int is_crlf(tok_t* t) { if (t->kind == T_WRITE) return t->b == 2 && ((u8*)t->a)[0] == 13 && ((u8*)t->a)[1] == 10; return t->kind == T_STR && ((u8*)t->a)[0] == 13 && ((u8*)t->a)[1] == 10 && ((u8*)t->a)[2] == 0; }
static int lit_is(u64 p, const char* s) { const u8* q = (const u8*)p; for (int i = 0; i < 20; i++) { if (q[i] != (u8)s[i]) return 0; if (!s[i]) return 1; } return 0; }
#define EXPECT(cond, msg) __CPROVER_assert(cond, msg)

int main(void) {
  __ir_init_globals();
  *(u64*)_ZTVSo = 8;
  the_buf = stream + OFF_ResponseStream_buf;
  u32 version, code; VP_SET(u32, version, "version"); VP_SET(u32, code, "code"); __CPROVER_assume(version <= 1 && code >= 100 && code <= 599);
  *(u32*)(message + OFF_Message_version_) = version; *(u32*)(message + OFF_Message_code_) = code;
#ifdef NHDRFIX
  n_hdr = NHDRFIX;
#else
  VP_SET(u64, n_hdr, "n_hdr"); __CPROVER_assume(n_hdr <= NHDR);
#endif
  for (int i = 0; i < NHDR; i++) { hdr_list[i].p = (u8*)&hdr_obj[i]; hdr_list[i].c = 0; VP_SET(u64, len_hdr[i], "len_hdr"); __CPROVER_assume(len_hdr[i] <= 4); }
#ifdef JAR0
  n_inner[0] = JAR0 ? JAR0 : 1; n_inner[1] = JAR1 ? JAR1 : 1; n_outer = (JAR0 ? 1 : 0) + (JAR0 && JAR1 ? 1 : 0);
#else
  VP_SET(u64, n_outer, "n_outer"); __CPROVER_assume(n_outer <= 2);
  for (int i = 0; i < 2; i++) { VP_SET(u64, n_inner[i], "n_inner"); __CPROVER_assume(n_inner[i] >= 1 && n_inner[i] <= 2); }
#endif
  for (int i = 0; i < 2; i++) { ((gm_t*)outer[i].second)->n = n_inner[i]; ((gm_t*)outer[i].second)->e = (u8*)&inner[i][0]; for (int j = 0; j < 2; j++) *(u64*)inner[i][j].cookie = (u64)(10 * (i + 1) + j); }
  VP_SET(u64, len_code, "len_code"); VP_SET(u64, len_cookie, "len_cookie"); __CPROVER_assume(len_code >= 2 && len_code <= 8 && len_cookie >= 3 && len_cookie <= 6);
  u64 maxsz; VP_SET(u64, maxsz, "cap"); __CPROVER_assume(maxsz <= 200);
  static u8 peer_wp[16], timeout_obj[64];
  _ZN8Pistache4Http14ResponseStreamC2EONS0_7MessageESt8weak_ptrINS_3Tcp4PeerEEPNS5_9TransportENS0_7TimeoutEmm(stream, message, peer_wp, transport_obj, timeout_obj, 16, maxsz);
  int thr = vp_take_exception();
  u64 want = 8 + 1 + 3 + 1 + len_code + 2;
  for (u64 i = 0; i < 2; i++) if (i < n_outer) for (u64 j = 0; j < 2; j++) if (j < n_inner[i]) want += 12 + len_cookie + 2;
  for (u64 i = 0; i < NHDR; i++) if (i < n_hdr) want += lit_len((u8*)hdr_names[i]) + 2 + len_hdr[i] + 2;
  want += 17 + 2 + 7 + 2 + 2;
  VP_OBS("fits", want <= cap);
  if (want <= cap) {
    EXPECT(!thr && total == want, "a head that fits is written completely");
    int k = 0;
#define NEXT(cond, msg) do { EXPECT(k < ntok && !toks[k].cut && (cond), msg); k++; } while (0)
    NEXT(toks[k].kind == T_VERSION && toks[k].a == version, "status line starts with the response's HTTP version");
    NEXT((toks[k].kind == T_STR && lit_is(toks[k].a, " ")) || (toks[k].kind == T_CHAR && toks[k].a == ' '), "SP after the version");
    NEXT(toks[k].kind == T_INT && toks[k].a == code, "the chosen status code, as a number");
    NEXT((toks[k].kind == T_CHAR && toks[k].a == ' ') || (toks[k].kind == T_STR && lit_is(toks[k].a, " ")), "SP after the status code");
    NEXT(toks[k].kind == T_CODE && toks[k].a == code, "reason phrase of the chosen status code");
    NEXT(is_crlf(&toks[k]), "CRLF ends the status line");
    for (u64 i = 0; i < 2; i++) if (i < n_outer) for (u64 j = 0; j < 2; j++) if (j < n_inner[i]) {
      NEXT(toks[k].kind == T_STR && lit_is(toks[k].a, "Set-Cookie: "), "each cookie of the jar gets its own Set-Cookie line");
      NEXT(toks[k].kind == T_COOKIE && toks[k].a == (u64)(10 * (i + 1) + j), "every stored cookie is emitted exactly once");
      NEXT(is_crlf(&toks[k]), "CRLF ends a Set-Cookie line"); }
    for (u64 i = 0; i < NHDR; i++) if (i < n_hdr) {
      NEXT(toks[k].kind == T_STR && toks[k].a == (u64)hdr_names[i], "each header once, in list order: its name");
      NEXT(toks[k].kind == T_STR && lit_is(toks[k].a, ": "), "': ' after a header name");
      NEXT(toks[k].kind == T_HDRWRITE && toks[k].a == i, "the header's own value");
      NEXT(is_crlf(&toks[k]), "CRLF ends a header line"); }
    NEXT(toks[k].kind == T_STR && lit_is(toks[k].a, "Transfer-Encoding"), "Transfer-Encoding header of a streamed response");
    NEXT(toks[k].kind == T_STR && lit_is(toks[k].a, ": "), "': ' after Transfer-Encoding");
    NEXT(toks[k].kind == T_ENC && toks[k].a == VP_ENC_CHUNKED, "the transfer coding is chunked");
    NEXT(is_crlf(&toks[k]), "CRLF ends the Transfer-Encoding line");
    NEXT(is_crlf(&toks[k]), "blank line ends the head");
    EXPECT(k == ntok, "nothing else is emitted");
  } else {
    EXPECT(thr, "a head that does not fit into the maximum response size is refused (the constructor throws), whichever piece overflowed");
  }
  VP_END("witness: end of harness reached");
  return 0;
}
