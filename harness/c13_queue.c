/* C13: the MPSC queue of include/pistache/mailbox.h under every interleaving of bounded length (own sequentialisation).
 * The real Queue<int>::push/pop, PollableQueue<int>::push/pop and popSafe code (through harness/w_c13.cc, compiled with
 * -DPISTACHE_VERIF_HOOKS) is translated by ir2c in RESUMABLE mode: every function that can reach pistache_verif_yield()
 * becomes "frame + step function"; a step runs from one yield to the next, i.e. it contains exactly one shared access
 * (head.exchange, the link store, the tail-next load, the eventfd write, an eventfd read).  A nondeterministic scheduler
 * picks, for KSTEPS steps, which thread runs next or that nobody runs (so every schedule of length <= KSTEPS is covered).
 * Threads: NPROD producers doing NPUSH pushes each (distinct tags), one consumer = the event loop, which may start the
 * drain loop of Transport::handleWriteQueue only while the eventfd counter is non-zero (level-triggered epoll).
 * Sequentially consistent memory.  eventfd = counter: write adds, read returns-and-zeroes or fails with EAGAIN at 0.     */
#include "vp.h"
#include "libc.h"
#include "q.c"      /* generated: translation of the wrapper + mailbox.h (resumable mode) */
#ifndef NPROD
#define NPROD 2
#endif
#ifndef NPUSH
#define NPUSH 1
#endif
#ifndef KSTEPS
#define KSTEPS 14
#endif
#define NITEMS (NPROD * NPUSH)
/* ---- environment models */
static u64 efd_counter;
u64 x_write(u32 fd, u8* buf, u64 n) { (void)fd; (void)n; efd_counter += *(u64*)buf; return 8; }
u64 x_read(u32 fd, u8* buf, u64 n) { (void)fd; (void)n; if (efd_counter == 0) { vp_errno = 11; return (u64)-1; } *(u64*)buf = efd_counter; efd_counter = 0; return 8; }
u32 x_close(u32 fd) { (void)fd; return 0; }
/* error-message formatting of the TRY macro (only reached when a syscall fails, which the models never do) */
void _ZNSt7__cxx1119basic_ostringstreamIcSt11char_traitsIcESaIcEEC1Ev(u8* s) { (void)s; }
void _ZNSt7__cxx1119basic_ostringstreamIcSt11char_traitsIcESaIcEED1Ev(u8* s) { (void)s; }
void _ZNKSt7__cxx1119basic_ostringstreamIcSt11char_traitsIcESaIcEE3strEv(u8* r, u8* s) { (void)r; (void)s; }
u8* _ZNSolsEi(u8* s, u32 v) { (void)v; return s; }
u8* _ZSt16__ostream_insertIcSt11char_traitsIcEERSt13basic_ostreamIT_T0_ES6_PKS3_l(u8* s, u8* p, u64 n) { (void)p; (void)n; return s; }
u8* _ZStlsISt11char_traitsIcEERSt13basic_ostreamIcT_ES5_PKc(u8* s, u8* p) { (void)p; return s; }
u8* x_strerror(u32 e) { (void)e; return (u8*)"e"; }
u8* x_gai_strerror(u32 e) { (void)e; return (u8*)"e"; }

int main(void) {
  __ir_init_globals();
  u8* q = vp_new(3);
  __CPROVER_assert(!vp_take_exception(), "queue construction");
  struct frame_vp_push pf[NPROD]; int pdone[NPROD]; int pactive[NPROD];
  struct frame_vp_drain df; int draining = 0; u32 out[NITEMS + 1]; u32 popped[NITEMS + 1]; int npopped = 0;
  /* producers start their first push and run its thread-local prefix (allocation) up to the first shared access */
  for (int p = 0; p < NPROD; p++) { pdone[p] = 0; pf[p].pc = 0; pf[p].v_q = q; pf[p].v_v = (u32)(p * 16 + 1); pactive[p] = rstep_vp_push(&pf[p]); }
  /* schedule normalisation (sound, removes equivalent schedules): a step that cannot make progress (finished producer,
   * consumer with nothing to wake it) is the same as an idle step, and idle steps commute to the end of the schedule, so
   * only schedules of the form "progress steps, then idle steps" are explored; producers are interchangeable, so producer
   * p+1 does not take its first step before producer p has taken one. */
  int idle_seen = 0; int pstarted[NPROD + 1]; for (int p = 0; p <= NPROD; p++) pstarted[p] = 0;
  for (int step = 0; step < KSTEPS; step++) {
    VP_IN(u8, t, "sched");   /* 0..NPROD-1 producer, NPROD consumer, NPROD+1: nobody runs */
    __CPROVER_assume(t <= NPROD + 1);
    int progress = 0;
    if (t < NPROD) {
      /* explicit dispatch on constants: a symbolically indexed frame array would make every frame access a case split */
#define RUN_PRODUCER(T) if (t == T && pdone[T] < NPUSH) { progress = 1; __CPROVER_assume(T == 0 || pstarted[T > 0 ? T - 1 : 0]); pstarted[T] = 1; int y = rstep_vp_push(&pf[T]); \
        if (!y) { pdone[T]++; if (pdone[T] < NPUSH) { pf[T].pc = 0; pf[T].v_q = q; pf[T].v_v = (u32)(T * 16 + 1 + pdone[T]); rstep_vp_push(&pf[T]); } } }
      RUN_PRODUCER(0)
#if NPROD > 1
      RUN_PRODUCER(1)
#endif
#if NPROD > 2
      RUN_PRODUCER(2)
#endif
    } else if (t == NPROD) {
      if (!draining) {
        if (efd_counter != 0) { progress = 1; draining = 1; df.pc = 0; df.v_q = q; df.v_out = (u8*)out; df.v_max = NITEMS + 1; if (!rstep_vp_drain(&df)) draining = 2; }
      } else { progress = 1; if (!rstep_vp_drain(&df)) draining = 2; }
      if (draining == 2) { u32 n = df.ret; for (u32 i = 0; i < NITEMS + 1; i++) if (i < n && npopped < NITEMS + 1) popped[npopped++] = out[i]; draining = 0; }
    }
    if (!progress) idle_seen = 1;
    __CPROVER_assume(!(idle_seen && progress));
    __CPROVER_assume(progress || t == NPROD + 1);
    __CPROVER_assert(!__ir_exc_pending, "no exception inside queue operations");
  }
  /* quiescent end state: every push has completed and the consumer is back in the event loop */
  int all = 1; for (int p = 0; p < NPROD; p++) if (pdone[p] < NPUSH) all = 0;
  __CPROVER_assume(all && !draining);
  u32 linked = vp_linked(q);
  __CPROVER_assert(npopped <= NITEMS, "no item is popped twice / invented (count)");
  for (int i = 0; i < NITEMS; i++) for (int j = 0; j < NITEMS; j++) if (i < j && j < npopped) __CPROVER_assert(popped[i] != popped[j], "every item is popped at most once");
  for (int i = 0; i < NITEMS; i++) if (i < npopped) { u32 v = popped[i]; u32 p = (v - 1) / 16, k = (v - 1) % 16; __CPROVER_assert(p < NPROD && k < NPUSH, "only pushed items are popped"); }
  for (int i = 0; i < NITEMS; i++) for (int j = 0; j < NITEMS; j++) if (i < j && j < npopped && (popped[i] - 1) / 16 == (popped[j] - 1) / 16) __CPROVER_assert(popped[i] < popped[j], "items of one producer come out in push order");
  __CPROVER_assert((u32)npopped + linked == NITEMS, "no loss: popped + still queued == pushed");
  __CPROVER_assert(linked == 0 || efd_counter != 0, "no missed wake-up: while an item is queued and the consumer is not draining, the readiness notification is pending");
#ifdef WITNESS
  __CPROVER_assert(!(npopped == NITEMS), "witness: a schedule in which every item is pushed and popped exists within the bound");
#endif
  return 0;
}
