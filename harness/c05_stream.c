/* C05(b'): ResponseStream::write / flush / ends (src/common/http.cc, sel mode): chunked framing of a streamed response.
 * Same ghost ostream as c05_wire.c: insertions are TOKENS with byte lengths over one byte counter with a SYMBOLIC capacity (the
 * configured maximum response size); an insertion that does not fit is cut and fails that ostream object; flush() hands the bytes
 * buffered so far to the transport and clears the buffer.
 * Scenario: NW writes of symbolic sizes 0..3 (a write of no bytes must emit nothing: a zero-size chunk IS the end of the body), after each of which the handler may flush, then ends().
 * Asserted: what reaches the transport is, in order, for each write: <hex size> CRLF <the caller's bytes> CRLF, and finally
 * "0" CRLF CRLF -- or, if some piece did not fit, the stream does NOT end successfully after it (an exception is raised by the
 * write that was cut or by ends()) and nothing written after the cut is sent; a cut chunk is never followed by a successful end.    */
#include "vp.h"
#include "libc.h"
#include "ghost.h"
#include "offsets.h"
#ifndef NW
#define NW 2
#endif
u64 _ZN8Pistache4Http14ResponseStream5writeEPKcl(u8*, u8*, u64);
void _ZN8Pistache4Http14ResponseStream5flushEv(u8*);
void _ZN8Pistache4Http14ResponseStream4endsEv(u8*);
u8 _ZTVSo[96] __attribute__((aligned(8)));
enum { T_STR = 1, T_WRITE, T_HEX };
typedef struct { u32 kind; u32 cut; u64 a; u64 b; u32 sent; } tok_t;
#define MAXTOK 24
static tok_t toks[MAXTOK]; static int ntok; static u64 total, cap; static int any_cut, sent_after_cut, n_flush, first_unsent;
#define NOS 6
static u8* os_ios[NOS]; static int os_failed[NOS]; static int nos; static u8* the_buf;
static int os_of_ios(u8* ios) { for (int i = 0; i < NOS; i++) if (i < nos && os_ios[i] == ios) return i; __CPROVER_assert(0, "ostream object known to the model"); return 0; }
void _ZNSt9basic_iosIcSt11char_traitsIcEEC2Ev(u8* ios) { (void)ios; }
void _ZNSt9basic_iosIcSt11char_traitsIcEED2Ev(u8* ios) { (void)ios; }
void _ZNSt9basic_iosIcSt11char_traitsIcEE4initEPSt15basic_streambufIcS1_E(u8* ios, u8* sb) { __CPROVER_assert(sb == the_buf && nos < NOS, "ostream over the stream's buffer (harness bound on their number)"); os_ios[nos] = ios; os_failed[nos] = 0; nos++; }
u8 _ZNKSt9basic_iosIcSt11char_traitsIcEEntEv(u8* ios) { return os_failed[os_of_ios(ios)] != 0; }
u8* _ZSt3hexRSt8ios_base(u8* b) { return b; }
static void put(u8* os, u32 kind, u64 a, u64 b, u64 nbytes) {
  int o = os_of_ios(os + 8); if (os_failed[o]) return;
  u64 room = cap - total; __CPROVER_assert(ntok < MAXTOK, "token log large enough (harness bound)");
  if (ntok < MAXTOK) { toks[ntok].kind = kind; toks[ntok].a = a; toks[ntok].b = b; toks[ntok].cut = nbytes > room; toks[ntok].sent = 0; ntok++; }
  if (nbytes > room) { total = cap; os_failed[o] = 1; any_cut = 1; } else total += nbytes; }
static u64 lit_len(u8* p) { u64 n = 0; while (p[n]) n++; return n; }
u8* _ZStlsISt11char_traitsIcEERSt13basic_ostreamIcT_ES5_PKc(u8* os, u8* lit) { put(os, T_STR, (u64)lit, lit_len(lit), lit_len(lit)); return os; }
u8* _ZNSo5writeEPKcl(u8* os, u8* p, u64 n) { put(os, T_WRITE, (u64)p, n, n); return os; }
u8* _ZNSo9_M_insertIlEERSoT_(u8* os, u64 v) { put(os, T_HEX, v, 0, 1); return os; }     /* sizes below 16: one hex digit */
/* environment */
static u8 stream[SIZEOF_ResponseStream] __attribute__((aligned(8))); static u8 transport_obj[8], peer_obj[8];
static int n_async; static u64 async_sizes;
void _ZN8Pistache4Http7Timeout6disarmEv(u8* t) { (void)t; }
void _ZNK8Pistache16DynamicStreamBuf6bufferEv(u8* ret, u8* sb) { (void)sb; *(u64*)(ret + OFF_RawBuffer_length) = total; }
void _ZN8Pistache9RawBufferD2Ev(u8* rb) { (void)rb; }
void _ZNK8Pistache4Http14ResponseStream4peerEv(u8* ret, u8* s) { (void)s; *(u8**)ret = peer_obj; *(u8**)(ret + 8) = 0; }
u8* _ZNKSt19__shared_ptr_accessIN8Pistache3Tcp4PeerELN9__gnu_cxx12_Lock_policyE2ELb0ELb0EEptEv(u8* sp) { return *(u8**)sp; }
void _ZNSt12__shared_ptrIN8Pistache3Tcp4PeerELN9__gnu_cxx12_Lock_policyE2EED2Ev(u8* sp) { (void)sp; }
u32 _ZNK8Pistache3Tcp4Peer2fdEv(u8* p) { (void)p; return 7; }
void _ZN8Pistache3Tcp9Transport10asyncWriteINS_9RawBufferEEENS_5Async7PromiseIlEEiRKT_i(u8* ret, u8* tr, u32 fd, u8* buffer, u32 flags) {
  (void)ret; (void)tr; (void)fd; (void)flags; n_async++; async_sizes += *(u64*)(buffer + OFF_RawBuffer_length);
  for (int i = 0; i < MAXTOK; i++) if (i >= first_unsent && i < ntok) { toks[i].sent = 1; if (any_cut) sent_after_cut = 1; } first_unsent = ntok; }
void _ZN8Pistache5Async7PromiseIlED2Ev(u8* p) { (void)p; }
void _ZN8Pistache3Tcp9Transport5flushEv(u8* t) { (void)t; n_flush++; }
void _ZN8Pistache16DynamicStreamBuf5clearEv(u8* sb) { (void)sb; total = 0; }
void _ZN8Pistache5ErrorC1EPKc(u8* e, u8* m) { (void)m; VP_EXC_SETVT(e); }
void _ZN8Pistache5ErrorD1Ev(u8* e) { (void)e; }
static int is_crlf(tok_t* t) { if (t->kind == T_WRITE) return t->b == 2 && ((u8*)t->a)[0] == 13 && ((u8*)t->a)[1] == 10; return t->kind == T_STR && ((u8*)t->a)[0] == 13 && ((u8*)t->a)[1] == 10 && ((u8*)t->a)[2] == 0; }
int main(void) {
  __ir_init_globals(); *(u64*)_ZTVSo = 8;
  the_buf = stream + OFF_ResponseStream_buf; *(u8**)(stream + OFF_ResponseStream_transport) = transport_obj;
  VP_SET(u64, cap, "cap"); __CPROVER_assume(cap <= 40);
  static u8 data[NW][4]; u64 sz[NW]; u8 fl[NW]; int thrown = 0; int ended = 0; int cut_before_end;
  for (int w = 0; w < NW; w++) { VP_SET(u64, sz[w], "size"); VP_SET(u8, fl[w], "flush"); __CPROVER_assume(sz[w] <= 3 && fl[w] <= 1); }
  for (int w = 0; w < NW; w++) if (!thrown) {
    u64 r = _ZN8Pistache4Http14ResponseStream5writeEPKcl(stream, data[w], sz[w]);
    if (vp_take_exception()) thrown = 1; else __CPROVER_assert(r == sz[w], "write reports the chunk size");
    if (!thrown && fl[w]) { _ZN8Pistache4Http14ResponseStream5flushEv(stream); if (vp_take_exception()) thrown = 1; }
  }
  cut_before_end = any_cut;
  if (!thrown) { _ZN8Pistache4Http14ResponseStream4endsEv(stream); if (vp_take_exception()) thrown = 1; else ended = 1; }
  /* a chunk that did not fit is never followed by a successful end of the stream, and nothing after the cut is sent as if it were whole */
  if (cut_before_end) __CPROVER_assert(!ended, "a chunk that was cut short (maximum response size reached) is never followed by a successful ends()");
  if (ended) {
    __CPROVER_assert(!any_cut, "a stream that ended successfully lost nothing");
    int k = 0;
#define NEXT(cond, msg) do { __CPROVER_assert(k < ntok && toks[k].sent && !toks[k].cut && (cond), msg); k++; } while (0)
    for (int i = 0; i < MAXTOK; i++) if (i < ntok) __CPROVER_assert(!(toks[i].kind == T_HEX && toks[i].a == 0), "a write of zero bytes emits no chunk (a zero-size chunk would end the body before the data that follows)");
    for (int w = 0; w < NW; w++) { if (sz[w] == 0) continue;
      NEXT(toks[k].kind == T_HEX && toks[k].a == sz[w], "chunk header: the size of the data written, in hex");
      NEXT(is_crlf(&toks[k]), "CRLF after the chunk size");
      NEXT(toks[k].kind == T_WRITE && toks[k].a == (u64)data[w] && toks[k].b == sz[w], "chunk data: exactly the caller's bytes");
      NEXT(is_crlf(&toks[k]), "CRLF after the chunk data"); }
    NEXT(toks[k].kind == T_STR && ((u8*)toks[k].a)[0] == '0' && ((u8*)toks[k].a)[1] == 0, "the stream is closed by a zero-length chunk");
    NEXT(is_crlf(&toks[k]), "CRLF after the last-chunk size");
    NEXT(is_crlf(&toks[k]), "final CRLF");
    __CPROVER_assert(k == ntok, "nothing else is emitted");
    __CPROVER_assert(n_async >= 1 && n_flush == n_async, "everything buffered is handed to the transport and flushed");
  }
  VP_END("witness: end of harness reached");
  return 0;
}
