/* One step of BodyStep::Chunk::parse from an ARBITRARY mid-chunk state (inductive step; covers chunk sizes up to
 * LONG_MAX that no bounded buffer can spell out): size in [1, 2^63-1], 0 <= already <= size, n <= 4 delivered bytes.
 * Asserted: no signed overflow / UB (CBMC), advance() is only called with valid counts (contract stub), every append
 * lies inside the delivered bytes, progress stays within the chunk, Complete exactly when data + CRLF were available.   */
#include "vp.h"
#include "libc.h"
#include "str_real.h"
#include "cursor_contract.h"
#include "offsets.h"
#ifndef N
#define N 4
#endif
u32 _ZN8Pistache4Http7Private8BodyStep5Chunk5parseERNS_12StreamCursorE(u8*, u8*);
typedef struct { u8 pad0[OFF_Message_body]; rstr_t body; u8 rest[SIZEOF_Request - OFF_Message_body - sizeof(rstr_t)]; } msg_t;
typedef struct { u8* message; u64 bytesRead; i64 size; i64 already; } chunk_t;
_Static_assert(offsetof(chunk_t, size) == OFF_Chunk_size && offsetof(chunk_t, already) == OFF_Chunk_already && sizeof(chunk_t) == SIZEOF_Chunk, "Chunk layout changed");
static msg_t msg; static u8* buf; static u64 buflen; static u64 appended; static u64 reserve_max;
u8 _ZTIN8Pistache4Http9HttpErrorE[24] __attribute__((aligned(8)));
void _ZN8Pistache4Http7Private4Step5raiseEPKcNS0_4CodeE(u8* m, u32 code) { (void)m; (void)code; __CPROVER_assert(0, "raise is not reachable from Chunk::parse"); }
u8* _ZNSt7__cxx1112basic_stringIcSt11char_traitsIcESaIcEE9_M_appendEPKcm(u8* self, u8* p, u64 n) {
  __CPROVER_assert(self == (u8*)&msg.body, "append targets message->body_");
  __CPROVER_assert(n <= buflen && (u64)p >= (u64)buf && (u64)p + n <= (u64)buf + buflen, "body append range lies inside the delivered bytes");
  appended += n; ((rstr_t*)self)->len += n; return self; }
void _ZNSt7__cxx1112basic_stringIcSt11char_traitsIcESaIcEE7reserveEm(u8* self, u64 n) { (void)self; if (n > reserve_max) reserve_max = n; }
int main(void) {
  __ir_init_globals();
  VP_IN(u64, n, "n"); __CPROVER_assume(n <= N);
  VP_BYTES(b, n, N, "b"); buf = b; buflen = n;
  VP_IN(u64, pos, "pos"); __CPROVER_assume(pos <= n);
  sb_t sb; vp_sb_init(&sb, b, pos, n); cursor_t c = { &sb };
  rstr_init_empty(&msg.body);
  VP_IN(u64, blen0, "bodylen"); __CPROVER_assume(blen0 <= ((u64)1 << 40)); msg.body.len = blen0;   /* body so far: any length */
  chunk_t ch; ch.message = (u8*)&msg; ch.bytesRead = 0;
  VP_SET(i64, ch.size, "size"); VP_SET(i64, ch.already, "already");
  __CPROVER_assume(ch.size >= 1 && ch.already >= 0 && ch.already <= ch.size);     /* invariant of a chunk in progress */
  i64 size = ch.size, already = ch.already; u64 avail = n - pos;
  u32 r = _ZN8Pistache4Http7Private8BodyStep5Chunk5parseERNS_12StreamCursorE((u8*)&ch, (u8*)&c);
  int thr = vp_take_exception();
  __CPROVER_assert(!thr, "no exception from a chunk in progress");
  u64 rem = (u64)(size - already);
  u64 consumed = (u64)sb.gptr - (u64)(b + pos);
  __CPROVER_assert(sb.eback == b && sb.egptr == b + n && (u64)sb.gptr >= (u64)(b + pos) && (u64)sb.gptr <= (u64)(b + n), "cursor stays inside the delivered bytes");
  if (avail >= rem + 2 && rem <= N) {
    __CPROVER_assert(r == 0 /* Complete */ && appended == rem && consumed == rem + 2, "all data and the CRLF are there: the chunk completes, data appended once, CRLF consumed");
  } else {
    u64 take = avail < rem ? avail : rem;
    __CPROVER_assert(r == 1 /* Incomplete */ && appended == take && consumed == take, "incomplete chunk: exactly the available data bytes are consumed and appended, never a part of the CRLF");
    __CPROVER_assert(ch.size == size && ch.already == already + (i64)take, "incomplete chunk: progress advances by the bytes taken (invariant 0 <= already <= size preserved)");
  }
  __CPROVER_assert(reserve_max <= blen0 + avail, "reserve() asks for no more than the body so far plus the bytes received");
  VP_END("witness: end of harness reached");
  return 0;
}
