/* C18: media types (src/common/mime.cc, sel mode; ghost strings/map; StreamCursor primitives = contract stubs proven by C03).
 *   H_SAFE: MediaType::parseRaw on EVERY text of exactly NN bytes held in an exact-size heap block: no access outside the block,
 *           termination, the only exception is HttpError(415 Unsupported Media Type); the raw text kept is exactly (str,len)
 *           and toString() of the parsed object is that text; the top-level type is the first table entry that prefixes the
 *           text (case-insensitively) and a text without such a prefix, without '/', or without a subtype is rejected.
 *   H_RT:   a media type BUILT from symbolic enum values (any known type x known subtype x (no | known suffix)), an optional
 *           quality value 0..100 and 0..1 parameter (name/value of 1..2 token octets) is written by the real toString() and
 *           the text is parsed by the real parseRaw: type, subtype, suffix, quality and parameters must come back equal.       */
#define VP_GS_ARENA 256
#define VP_GS_APPMAX 64
#include <stdarg.h>
#include "vp.h"
#include "libc.h"
#include "ghost_more.h"
#include "cursor_contract.h"
#include "offsets.h"
#ifndef NN
#define NN 8
#endif
void _ZN8Pistache4Http4Mime9MediaType8parseRawEPKcm(u8*, u8*, u64);
void _ZNK8Pistache4Http4Mime9MediaType8toStringB5cxx11Ev(u8*, u8*);
/* ------------------------------------------------------------------ environment */
void _ZNSt6localeC1Ev(u8* l) { (void)l; }
void _ZNSt6localeD1Ev(u8* l) { (void)l; }
void _ZNSt15basic_streambufIcSt11char_traitsIcEED2Ev(u8* s) { (void)s; }
void _ZNSt15basic_streambufIcSt11char_traitsIcEE5imbueERKSt6locale(u8* s, u8* l) { (void)s; (void)l; }
u8* _ZNSt15basic_streambufIcSt11char_traitsIcEE6setbufEPcl(u8* s, u8* p, u64 n) { (void)p; (void)n; return s; }
u64 _ZNSt15basic_streambufIcSt11char_traitsIcEE6xsgetnEPcl(u8* s, u8* p, u64 n) { (void)s; (void)p; (void)n; __CPROVER_assert(0, "xsgetn not used by the cursor"); return 0; }
u64 _ZNSt15basic_streambufIcSt11char_traitsIcEE6xsputnEPKcl(u8* s, u8* p, u64 n) { (void)s; (void)p; (void)n; __CPROVER_assert(0, "xsputn not used by the cursor"); return 0; }
agg16_8 _ZNSt15basic_streambufIcSt11char_traitsIcEE7seekoffElSt12_Ios_SeekdirSt13_Ios_Openmode(u8* s, u64 o, u32 d, u32 m) { (void)s; (void)o; (void)d; (void)m; agg16_8 r = { { 0 } }; __CPROVER_assert(0, "seekoff not used"); return r; }
agg16_8 _ZNSt15basic_streambufIcSt11char_traitsIcEE7seekposESt4fposI11__mbstate_tESt13_Ios_Openmode(u8* s, u64 a, u64 b, u32 m) { (void)s; (void)a; (void)b; (void)m; agg16_8 r = { { 0 } }; __CPROVER_assert(0, "seekpos not used"); return r; }
/* HttpError(Code, std::string): records the code */
u8 _ZTIN8Pistache4Http9HttpErrorE[24] __attribute__((aligned(8)));
static u32 http_code; static int http_errors;
void _ZN8Pistache4Http9HttpErrorC1ENS0_4CodeENSt7__cxx1112basic_stringIcSt11char_traitsIcESaIcEEE(u8* self, u32 code, u8* msg) { (void)msg; VP_EXC_SETVT(self); http_code = code; http_errors++; }
void _ZN8Pistache4Http9HttpErrorD1Ev(u8* s) { (void)s; }
/* optional<Q>: { u16 value; bool engaged } */
u8 _ZNKSt8optionalIN8Pistache4Http4Mime1QEE9has_valueEv(u8* o) { return o[2]; }
u8* _ZNKSt19_Optional_base_implIN8Pistache4Http4Mime1QESt14_Optional_baseIS3_Lb1ELb1EEE6_M_getEv(u8* o) { __CPROVER_assert(o[2], "optional<Q> dereferenced only when engaged"); return o; }
u8* _ZNSt8optionalIN8Pistache4Http4Mime1QEEaSIS3_EENSt9enable_ifIX7__and_vISt6__not_ISt7is_sameIS4_NSt9remove_cvINSt16remove_referenceIT_E4typeEE4typeEEES7_ISt6__and_IJSt9is_scalarIS3_ES8_IS3_NSt5decayISB_E4typeEEEEESt16is_constructibleIS3_JSB_EESt13is_assignableIRS3_SB_EEERS4_E4typeEOSB_(u8* o, u8* v) { *(u16*)o = *(u16*)v; o[2] = 1; return o; }
/* round(): half away from zero (values here are 0 <= x < 2^31) */
double __ir_llvm_round_f64(double x) {
  if (!(x > -2147483000.0 && x < 2147483000.0)) return x;
  double t = (double)(i64)x; double d = x - t;
  if (d >= 0.5) return t + 1.0; if (d <= -0.5) return t - 1.0; return t; }
/* snprintf(buf, 7, "q=%.1f" | "q=%.2f", val/100.0): prints the decimal expansion of the hundredths rounded to 1 or 2 places */
u32 x_snprintf(u8* buf, u64 size, u8* fmt, ...) {
  va_list ap; va_start(ap, fmt); double d = va_arg(ap, double); va_end(ap);
  __CPROVER_assert(size == 7 && fmt[0] == 'q' && fmt[1] == '=' && fmt[2] == '%' && fmt[3] == '.' && (fmt[4] == '1' || fmt[4] == '2') && fmt[5] == 'f' && fmt[6] == 0, "snprintf model covers the two quality formats only");
  __CPROVER_assert(d >= 0.0 && d <= 1.0, "quality printed is within [0,1]");
  u32 h = (u32)(d * 100.0 + 0.5);
  buf[0] = 'q'; buf[1] = '='; buf[2] = (u8)('0' + h / 100); buf[3] = '.'; buf[4] = (u8)('0' + (h / 10) % 10);
  if (fmt[4] == '1') { u32 t = (h + 5) / 10; buf[2] = (u8)('0' + t / 10); buf[4] = (u8)('0' + t % 10); buf[5] = 0; return 5; }
  buf[5] = (u8)('0' + h % 10); buf[6] = 0; return 6; }

static const char* const TYPES[] = { VP_MIME_TYPES };
static const char* const SUBS[] = { VP_MIME_SUBTYPES };
static const char* const SUFS[] = { VP_MIME_SUFFIXES };
#define NTYPES ((int)(sizeof TYPES / sizeof TYPES[0]))
#define NSUBS ((int)(sizeof SUBS / sizeof SUBS[0]))
#define NSUFS ((int)(sizeof SUFS / sizeof SUFS[0]))
static u8 lc(u8 c) { return (c >= 'A' && c <= 'Z') ? c + 32 : c; }
static u8 mt[SIZEOF_MediaType] __attribute__((aligned(8)));
static void mt_default(u8* m) {
  *(u32*)(m + OFF_MediaType_top) = VP_MIME_TYPE_NONE; *(u32*)(m + OFF_MediaType_sub) = VP_MIME_SUB_NONE; *(u32*)(m + OFF_MediaType_suffix) = VP_MIME_SUFFIX_NONE;
  GS(m + OFF_MediaType_raw)->p = (u8*)""; GS(m + OFF_MediaType_raw)->len = 0;
  gmap_new(m + OFF_MediaType_params); m[OFF_MediaType_q + 2] = 0; *(u16*)(m + OFF_MediaType_q) = 0; }

int main(void) {
  __ir_init_globals();
#if defined(H_SAFE)
  u8* b = (u8*)malloc(NN); __CPROVER_assume(b != 0);
  for (u64 i = 0; i < NN; i++) { VP_SET(u8, b[i], "b"); }
  mt_default(mt);
  _ZN8Pistache4Http4Mime9MediaType8parseRawEPKcm(mt, b, NN);
  int thr = vp_take_exception();
  if (thr) __CPROVER_assert(__ir_exc_type == _ZTIN8Pistache4Http9HttpErrorE && http_code == 415, "text that is not a media type is rejected with HttpError(415 Unsupported Media Type), nothing else");
  /* reference: first table entry that is a case-insensitive prefix, then '/', then at least one more byte */
  int top = -1; u64 tl = 0;
  for (int t = NTYPES - 1; t >= 0; t--) { u64 l = 0; while (TYPES[t][l]) l++; int m = l <= NN; for (u64 i = 0; i < 12; i++) if (m && i < l && lc(b[i]) != (u8)TYPES[t][i]) m = 0; if (m) { top = t; tl = l; } }
  if (top < 0 || tl >= NN || b[tl] != '/' || tl + 1 >= NN) __CPROVER_assert(thr, "no known top-level type, no '/', or no subtype: rejected");
  if (!thr) {
    __CPROVER_assert(*(u32*)(mt + OFF_MediaType_top) == (u32)top, "top-level type is the table entry prefixing the text");
    __CPROVER_assert(GS(mt + OFF_MediaType_raw)->p == b && GS(mt + OFF_MediaType_raw)->len == NN, "the raw text kept is exactly (str,len)");
    static gstr_t out;
    _ZNK8Pistache4Http4Mime9MediaType8toStringB5cxx11Ev((u8*)&out, mt);
    __CPROVER_assert(!vp_take_exception() && out.p == b && out.len == NN, "the string form of a parsed media type is the text it was parsed from");
    u8* q = mt + OFF_MediaType_q; if (q[2]) __CPROVER_assert(*(u16*)q <= 100, "a parsed quality value lies in 0..100");
  }
#elif defined(H_RT)
#ifndef WITHQ
#define WITHQ 0
#endif
#ifndef NPARAM
#define NPARAM 0
#endif
#define SL 2
  VP_IN(u32, top, "top"); VP_IN(u32, sub, "sub"); VP_IN(u32, suf, "suf"); VP_IN(u16, qv, "q");
  __CPROVER_assume(top < (u32)NTYPES && sub < (u32)NSUBS && (suf < (u32)NSUFS || suf == VP_MIME_SUFFIX_NONE) && qv <= 100);
#ifdef TOPFIX
  top = TOPFIX;
#endif
#ifdef SUBFIX
  sub = SUBFIX;
#endif
#ifdef SUFFIX
  suf = SUFFIX;
#endif
  static u8 pk[SL], pv[SL]; u64 lk, lv;
  VP_SET(u64, lk, "pk_len"); VP_SET(u64, lv, "pv_len"); __CPROVER_assume(lk >= 1 && lk <= SL && lv >= 1 && lv <= SL);
#define TOKCH(c) ((c) > 32 && (c) < 127 && (c) != '=' && (c) != ';' && (c) != ',' && (c) != '"' && (c) != '/' && (c) != '+')
  for (int i = 0; i < SL; i++) { VP_SET(u8, pk[i], "pk"); VP_SET(u8, pv[i], "pv"); __CPROVER_assume(TOKCH(pk[i]) && TOKCH(pv[i])); }
  __CPROVER_assume(!(lk == 1 && lc(pk[0]) == 'q'));   /* the parameter named exactly "q" IS the quality value */
  static u8 src[SIZEOF_MediaType] __attribute__((aligned(8)));
  mt_default(src);
  *(u32*)(src + OFF_MediaType_top) = top; *(u32*)(src + OFF_MediaType_sub) = sub; *(u32*)(src + OFF_MediaType_suffix) = suf;
  if (WITHQ) { *(u16*)(src + OFF_MediaType_q) = qv; src[OFF_MediaType_q + 2] = 1; }
  if (NPARAM) { gmap_t* g = GM(src + OFF_MediaType_params); g->e[0].k.p = pk; g->e[0].k.len = lk; g->e[0].v.p = pv; g->e[0].v.len = lv; g->n = 1; }
  static gstr_t text;
  _ZNK8Pistache4Http4Mime9MediaType8toStringB5cxx11Ev((u8*)&text, src);
  __CPROVER_assert(!vp_take_exception(), "toString does not throw");
  VP_OBS("text_len", text.len);
  mt_default(mt);
  _ZN8Pistache4Http4Mime9MediaType8parseRawEPKcm(mt, text.p, text.len);
  int thr = vp_take_exception();
  __CPROVER_assert(!thr, "the string form of a built media type is accepted by the parser");
  if (!thr) {
    __CPROVER_assert(*(u32*)(mt + OFF_MediaType_top) == top, "round trip: top-level type");
    __CPROVER_assert(*(u32*)(mt + OFF_MediaType_sub) == sub, "round trip: subtype");
    __CPROVER_assert(*(u32*)(mt + OFF_MediaType_suffix) == suf, "round trip: suffix");
    __CPROVER_assert(mt[OFF_MediaType_q + 2] == (WITHQ != 0), "round trip: quality present iff set");
    if (WITHQ) __CPROVER_assert(*(u16*)(mt + OFF_MediaType_q) == qv, "round trip: quality value");
    gmap_t* g = GM(mt + OFF_MediaType_params);
    __CPROVER_assert(g->n == NPARAM, "round trip: number of parameters");
    if (NPARAM && g->n == 1) {
      __CPROVER_assert(g->e[0].k.len == lk && g->e[0].v.len == lv, "round trip: parameter name/value lengths");
      for (int i = 0; i < SL; i++) { if (i < (int)lk && g->e[0].k.len == lk) __CPROVER_assert(g->e[0].k.p[i] == pk[i], "round trip: parameter name"); if (i < (int)lv && g->e[0].v.len == lv) __CPROVER_assert(g->e[0].v.p[i] == pv[i], "round trip: parameter value"); } }
  }
#endif
  VP_END("witness: end of harness reached");
  return 0;
}
