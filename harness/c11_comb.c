/* C11: all-of / any-of policy kernels of include/pistache/async.h (Impl::All::{resolveT,resolveVoid,reject},
 * Impl::Any::{resolveT,resolveVoid,reject}; sel mode, instantiated by harness/w_c11.cc for 2 and 3 int inputs / void inputs).
 * Resolver::operator() and Rejection::operator() are stubs with the REAL contract of async.h: the first call settles the combined
 * promise, any later call finds the core no longer pending and THROWS Async::Error.  The solver picks an arbitrary order in which
 * the NIN inputs settle (each once) and an arbitrary outcome for each (fulfilled with a symbolic value, or rejected).
 * Asserted: no exception escapes a policy call (later outcomes are ignored without raising an error in the party that settles
 * them); the data mutex is released on return;
 *   all-of: fulfils exactly once, by the call that delivers the last fulfilment, with the values in ARGUMENT order, iff no input
 *           rejected; rejects exactly once, at the first rejection, with that rejection's exception; never both;
 *   any-of: takes exactly the first outcome (value or exception) and nothing afterwards.                                          */
#include "vp.h"
#include "libc.h"
#include "ghost.h"
#include "offsets.h"
#ifndef NIN
#define NIN 2
#endif
void c11_all2_resolve0(u8*, u8*); void c11_all2_resolve1(u8*, u8*); void c11_all2_reject(u8*, u8*);
void c11_all3_resolve0(u8*, u8*); void c11_all3_resolve1(u8*, u8*); void c11_all3_resolve2(u8*, u8*); void c11_all3_resolvevoid(u8*); void c11_all3_reject(u8*, u8*);
void c11_any_resolve(u8*, u8*); void c11_any_resolvevoid(u8*); void c11_any_reject(u8*, u8*);
void c11_war_ctor(u8*, u64, u8*, u8*); void c11_war_fulfil(u8*, u64, u8*);
void c11_all2_init(u8*, u8*, u8*); void c11_all3_init(u8*, u8*, u8*); void c11_any_init(u8*, u64, u8*, u8*);
/* ------------------------------------------------------------------ combined promise: recording stubs with the real contract */
static int settled;            /* 0 pending, 1 fulfilled, 2 rejected */
static int n_resolve, n_reject, n_throw; static u32 res_val[3]; static u8* rej_exc; static u8* res_any_core; static int step_of_settle, cur_step;
static u8* data_obj; static u64 off_resolve, off_reject, off_results;
static void err_not_pending(void) { n_throw++; vp_throw_std(_ZTISt13runtime_error); }   /* Async::Error derives from std::runtime_error */
static u8 do_resolve(u8* self) {
  __CPROVER_assert(self == data_obj + off_resolve, "the combined promise is settled through the Resolver stored in the policy data");
  if (settled) { err_not_pending(); return 0; }
  settled = 1; n_resolve++; step_of_settle = cur_step; return 1; }
u8 _ZNK8Pistache5Async8ResolverclIRSt5tupleIJiiEEEEbOT_(u8* self, u8* t) { if (!do_resolve(self)) return 0; res_val[0] = *(u32*)(t + OFF_Tuple2_0); res_val[1] = *(u32*)(t + OFF_Tuple2_1); __CPROVER_assert(t == data_obj + off_results, "all-of fulfils with the results tuple of the policy data"); return 1; }
u8 _ZNK8Pistache5Async8ResolverclIRSt5tupleIJiiiEEEEbOT_(u8* self, u8* t) { if (!do_resolve(self)) return 0; res_val[0] = *(u32*)(t + OFF_Tuple3_0); res_val[1] = *(u32*)(t + OFF_Tuple3_1); res_val[2] = *(u32*)(t + OFF_Tuple3_2); __CPROVER_assert(t == data_obj + off_results, "all-of fulfils with the results tuple of the policy data"); return 1; }
u8 _ZNK8Pistache5Async8ResolverclINS0_3AnyEEEbOT_(u8* self, u8* any) { if (!do_resolve(self)) return 0; res_any_core = *(u8**)(any + OFF_Any_core); return 1; }
u8 _ZNK8Pistache5Async9RejectionclINSt15__exception_ptr13exception_ptrEEEbT_(u8* self, u8* exc) {
  __CPROVER_assert(self == data_obj + off_reject, "the combined promise is rejected through the Rejection stored in the policy data");
  if (settled) { err_not_pending(); return 0; }
  settled = 2; n_reject++; rej_exc = *(u8**)exc; step_of_settle = cur_step; return 1; }
/* ------------------------------------------------------------------ std models */
static int mtx_held; static u8* mtx_addr;
void _ZNSt10lock_guardISt5mutexEC2ERS0_(u8* g, u8* m) { __CPROVER_assert(!mtx_held, "the data mutex is not taken twice"); mtx_held = 1; mtx_addr = m; *(u8**)g = m; }
void _ZNSt10lock_guardISt5mutexED2Ev(u8* g) { (void)g; __CPROVER_assert(mtx_held, "unlock of a held mutex"); mtx_held = 0; }
u8* _ZNKSt19__shared_ptr_accessI7AnyDataLN9__gnu_cxx12_Lock_policyE2ELb0ELb0EEptEv(u8* sp) { return *(u8**)sp; }
u8* _ZNKSt19__shared_ptr_accessI8AllData2LN9__gnu_cxx12_Lock_policyE2ELb0ELb0EEptEv(u8* sp) { return *(u8**)sp; }
u8* _ZNKSt19__shared_ptr_accessI8AllData3LN9__gnu_cxx12_Lock_policyE2ELb0ELb0EEptEv(u8* sp) { return *(u8**)sp; }
u8* _ZNKSt19__shared_ptr_accessIN8Pistache5Async7Private5CoreTIiEELN9__gnu_cxx12_Lock_policyE2ELb0ELb0EEptEv(u8* sp) { return *(u8**)sp; }
void _ZNSt15__exception_ptr13exception_ptrC2EOS0_(u8* d, u8* s) { *(u8**)d = *(u8**)s; *(u8**)s = 0; }
void _ZNSt15__exception_ptr13exception_ptrC2ERKS0_(u8* d, u8* s) { *(u8**)d = *(u8**)s; }
void _ZNSt15__exception_ptr13exception_ptrD2Ev(u8* d) { (void)d; }
/* any-of allocates a fresh core for the value: make_shared<CoreT<T>>() + Core::construct<T>(val) (recorded) */
static u8 cores[4][16]; static int ncores; static u32 core_val[4]; static int core_has_val[4];
static void mk_core(u8* ret) { __CPROVER_assert(ncores < 4, "at most one core per any-of fulfilment (harness bound)"); *(u8**)ret = cores[ncores]; *(u8**)(ret + 8) = 0; core_has_val[ncores] = 0; ncores++; }
void _ZSt11make_sharedIN8Pistache5Async7Private5CoreTIiEEJEESt10shared_ptrINSt9enable_ifIXntsr8is_arrayIT_EE5valueES7_E4typeEEDpOT0_(u8* ret) { mk_core(ret); }
void _ZSt11make_sharedIN8Pistache5Async7Private5CoreTIvEEJEESt10shared_ptrINSt9enable_ifIXntsr8is_arrayIT_EE5valueES7_E4typeEEDpOT0_(u8* ret) { mk_core(ret); }
void _ZN8Pistache5Async7Private4Core9constructIiJRKiEEEvDpOT0_(u8* core, u8* val) { for (int i = 0; i < 4; i++) if (core == cores[i]) { core_val[i] = *(u32*)val; core_has_val[i] = 1; } }
void _ZNSt10shared_ptrIN8Pistache5Async7Private4CoreEEC2INS2_5CoreTIiEEvEERKS_IT_E(u8* d, u8* s) { *(u8**)d = *(u8**)s; *(u8**)(d + 8) = 0; }
void _ZNSt10shared_ptrIN8Pistache5Async7Private4CoreEEC2INS2_5CoreTIvEEvEERKS_IT_E(u8* d, u8* s) { *(u8**)d = *(u8**)s; *(u8**)(d + 8) = 0; }
void _ZNSt10shared_ptrIN8Pistache5Async7Private4CoreEEC2ERKS4_(u8* d, u8* s) { *(u8**)d = *(u8**)s; *(u8**)(d + 8) = 0; }
void _ZNSt12__shared_ptrIN8Pistache5Async7Private4CoreELN9__gnu_cxx12_Lock_policyE2EED2Ev(u8* s) { (void)s; }
void _ZNSt12__shared_ptrIN8Pistache5Async7Private5CoreTIiEELN9__gnu_cxx12_Lock_policyE2EED2Ev(u8* s) { (void)s; }
void _ZNSt12__shared_ptrIN8Pistache5Async7Private5CoreTIvEELN9__gnu_cxx12_Lock_policyE2EED2Ev(u8* s) { (void)s; }

/* ------------------------------------------------------------------ std::vector<int> (results of the range form): { storage, size } */
#define VMAX 4
static u32 vstore[VMAX];
typedef struct { u32* b; u64 n; u64 cap; } gvi_t;
void _ZNSt6vectorIiSaIiEEC2Ev(u8* v) { ((gvi_t*)v)->b = vstore; ((gvi_t*)v)->n = 0; ((gvi_t*)v)->cap = 0; }
void _ZNSt6vectorIiSaIiEED2Ev(u8* v) { (void)v; }
void _ZNSt6vectorIiSaIiEE6resizeEm(u8* v, u64 n) { __CPROVER_assert(n <= VMAX, "ghost vector<int> capacity (harness bound)"); for (u64 i = 0; i < VMAX; i++) if (i >= ((gvi_t*)v)->n && i < n) vstore[i] = 0; ((gvi_t*)v)->n = n; }
void _ZNSt6vectorIiSaIiEE7reserveEm(u8* v, u64 n) { __CPROVER_assert(n <= VMAX, "ghost vector<int> capacity (harness bound)"); ((gvi_t*)v)->cap = n; }
u8* _ZNSt6vectorIiSaIiEEixEm(u8* v, u64 i) { __CPROVER_assert(i < ((gvi_t*)v)->n, "vector<int>::operator[] inside the vector"); return (u8*)&vstore[i < VMAX ? i : 0]; }
void _ZNSt6vectorIiSaIiEE9push_backERKi(u8* v, u8* x) { __CPROVER_assert(((gvi_t*)v)->n < VMAX, "ghost vector<int> capacity (harness bound)"); if (((gvi_t*)v)->n < VMAX) { vstore[((gvi_t*)v)->n] = *(u32*)x; ((gvi_t*)v)->n++; } }
u64 _ZNKSt6vectorIiSaIiEE4sizeEv(u8* v) { return ((gvi_t*)v)->n; }
static u64 res_vec_n;
u8 _ZNK8Pistache5Async8ResolverclIRSt6vectorIiSaIiEEEEbOT_(u8* self, u8* v) { if (!do_resolve(self)) return 0; __CPROVER_assert(v == data_obj + off_results, "all-of fulfils with the results vector of the policy data"); res_vec_n = ((gvi_t*)v)->n; for (int i = 0; i < 3; i++) res_val[i] = vstore[i]; return 1; }
u8* _ZNKSt19__shared_ptr_accessIN8Pistache5Async4Impl12WhenAllRangeIiSt6vectorIiSaIiEEE5DataTIivEELN9__gnu_cxx12_Lock_policyE2ELb0ELb0EEptEv(u8* sp) { return *(u8**)sp; }
void _ZNSt10shared_ptrIN8Pistache5Async4Impl12WhenAllRangeIiSt6vectorIiSaIiEEE5DataTIivEEEC2ERKSA_(u8* d, u8* s) { *(u8**)d = *(u8**)s; *(u8**)(d + 8) = 0; }
void _ZNSt12__shared_ptrIN8Pistache5Async4Impl12WhenAllRangeIiSt6vectorIiSaIiEEE5DataTIivEELN9__gnu_cxx12_Lock_policyE2EED2Ev(u8* s) { (void)s; }
void _ZNSt10shared_ptrIN8Pistache5Async7Private4CoreEEC2EOS4_(u8* d, u8* s) { *(u8**)d = *(u8**)s; *(u8**)(d + 8) = *(u8**)(s + 8); *(u8**)s = 0; }
void _ZNSt5mutexC2Ev(u8* m) { (void)m; }

static u8 data[SIZEOF_WarData > SIZEOF_AllData3 ? SIZEOF_WarData : SIZEOF_AllData3] __attribute__((aligned(8)));
static u8 excs[3][8];

int main(void) {
  __ir_init_globals();
  data_obj = data; u8* sp[2] = { data, 0 };
#if defined(H_ALL)
  off_resolve = OFF_AllData_resolve; off_reject = OFF_AllData_reject; off_results = NIN == 2 ? OFF_AllData2_results : OFF_AllData3_results;
  { static u8 r0[16], j0[16]; if (NIN == 2) c11_all2_init(data, r0, j0); else c11_all3_init(data, r0, j0); __CPROVER_assert(!vp_take_exception(), "constructing the policy data does not throw"); }
#elif defined(H_RANGE)
  off_resolve = OFF_WarData_resolve; off_reject = OFF_WarData_reject; off_results = OFF_WarData_results;
  { static u8 r0[16], j0[16]; c11_war_ctor(data, NIN, r0, j0); __CPROVER_assert(!vp_take_exception(), "constructing the range data does not throw"); }
  __CPROVER_assert(*(u64*)(data + OFF_WarData_total) == NIN && *(u64*)(data + OFF_WarData_resolved) == 0 && data[OFF_WarData_rejected] == 0, "range data starts with nothing fulfilled, not rejected");
  u8 pre_rejected; VP_SET(u8, pre_rejected, "pre_rejected"); __CPROVER_assume(pre_rejected <= 1); data[OFF_WarData_rejected] = pre_rejected;   /* an input rejected earlier (the rejection lambda has run) */
  if (pre_rejected) settled = 2;
#else
  off_resolve = OFF_AnyData_resolve; off_reject = OFF_AnyData_reject; off_results = 0;
  { static u8 r0[16], j0[16]; c11_any_init(data, NIN, r0, j0); __CPROVER_assert(!vp_take_exception(), "constructing the policy data does not throw"); }
#endif
  /* each input settles once, in an order and with an outcome chosen by the solver */
  u32 val[3]; u8 rejects[3]; int used[3] = { 0, 0, 0 }; int order[3];
  for (int i = 0; i < NIN; i++) { VP_SET(u32, val[i], "val"); VP_SET(u8, rejects[i], "rejects"); __CPROVER_assume(rejects[i] <= 1); }
#ifdef VOIDS
  for (int i = 0; i < NIN; i++) val[i] = 0;
#endif
  int first_reject = -1, n_ful = 0; int first = -1;
  for (int s = 0; s < NIN; s++) {
    u32 k; VP_SET(u32, k, "who"); __CPROVER_assume(k < NIN && !used[k]); used[k] = 1; order[s] = (int)k; cur_step = s;
    if (first < 0) first = (int)k;
    u8* excp[1] = { excs[k] };
#ifdef H_RANGE
    __CPROVER_assume(!rejects[k]);
#endif
    if (rejects[k]) {
      if (first_reject < 0) first_reject = (int)k;
#if defined(H_ALL)
      if (NIN == 2) c11_all2_reject((u8*)excp, (u8*)sp); else c11_all3_reject((u8*)excp, (u8*)sp);
#else
      c11_any_reject((u8*)excp, (u8*)sp);
#endif
    } else {
      n_ful++;
#if defined(H_RANGE)
      c11_war_fulfil((u8*)sp, (u64)k, (u8*)&val[k]);
#elif defined(H_ALL)
#ifdef VOIDS
      c11_all3_resolvevoid((u8*)sp);
#else
      if (NIN == 2) { if (k == 0) c11_all2_resolve0((u8*)&val[k], (u8*)sp); else c11_all2_resolve1((u8*)&val[k], (u8*)sp); }
      else { if (k == 0) c11_all3_resolve0((u8*)&val[k], (u8*)sp); else if (k == 1) c11_all3_resolve1((u8*)&val[k], (u8*)sp); else c11_all3_resolve2((u8*)&val[k], (u8*)sp); }
#endif
#else
#ifdef VOIDS
      c11_any_resolvevoid((u8*)sp);
#else
      c11_any_resolve((u8*)&val[k], (u8*)sp);
#endif
#endif
    }
    int thr = vp_take_exception();
    __CPROVER_assert(!thr, "a later outcome is ignored without raising an error in the party that settles it (no exception escapes the policy)");
    __CPROVER_assert(!mtx_held, "the data mutex is released when the policy returns");
    __CPROVER_assert(n_resolve + n_reject <= 1, "the combined promise is settled at most once");
  }
#ifdef H_RANGE
  if (data[OFF_WarData_rejected]) __CPROVER_assert(n_resolve == 0, "range all-of: nothing is fulfilled after a rejection");
  else {
    __CPROVER_assert(n_resolve == 1 && step_of_settle == NIN - 1, "range all-of fulfils exactly once, when the last input has fulfilled");
    __CPROVER_assert(res_vec_n == NIN, "range all-of fulfils with one value per input");
    for (int i = 0; i < NIN; i++) __CPROVER_assert(res_val[i] == val[i], "range all-of fulfils with all values in argument order");
  }
  __CPROVER_assert(n_throw == 0, "the combined promise is never settled a second time");
  VP_END("witness: end of harness reached");
  return 0;
#endif
  __CPROVER_assert(n_throw == 0, "the combined promise is never settled a second time");
#if defined(H_ALL)
  if (first_reject >= 0) {
    __CPROVER_assert(n_reject == 1 && n_resolve == 0, "all-of rejects exactly once when an input rejects, and never fulfils");
    __CPROVER_assert(rej_exc == excs[first_reject], "all-of rejects with the exception of the FIRST rejection");
    int pos = 0; for (int s = 0; s < NIN; s++) if (order[s] == first_reject) pos = s;
    __CPROVER_assert(step_of_settle == pos, "all-of rejects at the first rejection, not later");
  } else {
    __CPROVER_assert(n_resolve == 1 && n_reject == 0, "all-of fulfils exactly once when every input has fulfilled");
    __CPROVER_assert(step_of_settle == NIN - 1, "all-of fulfils only once the last input has fulfilled");
#ifndef VOIDS
    for (int i = 0; i < NIN; i++) __CPROVER_assert(res_val[i] == val[i], "all-of fulfils with all values in argument order");
#endif
  }
#else
  __CPROVER_assert(step_of_settle == 0 && n_resolve + n_reject == 1, "any-of takes the first outcome");
  if (rejects[first]) __CPROVER_assert(n_reject == 1 && rej_exc == excs[first], "any-of rejects with the first outcome's exception");
  else {
    __CPROVER_assert(n_resolve == 1 && res_any_core == cores[0], "any-of fulfils with a core built for the first outcome");
#ifndef VOIDS
    __CPROVER_assert(core_has_val[0] && core_val[0] == val[first], "any-of fulfils with the first outcome's value");
#endif
  }
#endif
  VP_END("witness: end of harness reached");
  return 0;
}
