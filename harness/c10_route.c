/* C10(a): SegmentTreeNode::findRoute (src/server/router.cc, sel mode) -- ONE INDUCTIVE STEP on an arbitrary node.
 * The node under test has 0..2 fixed children, 0..NPAR parameter children, 0..1 optional child, possibly a splat child and
 * possibly a route, with SYMBOLIC keys (1..2 bytes) and parameter names; the request path is empty or starts with a symbolic
 * segment of 1..2 bytes followed or not by a lower path; params/splats already hold 0..2 arbitrary bindings.  The recursive
 * calls findRoute makes on its children are redirected (by the translator, see 'selfcall') to a stub that IS the induction
 * hypothesis: for child k and the lower path it answers an arbitrary but fixed outcome -- not found (params/splats untouched, empty
 * vectors returned) or found with route r_k and the bindings passed in followed by arbitrary further bindings.
 * Asserted against a reference written from the property: the result is that of the first alternative that succeeds in the order
 * fixed > parameter > optional > wildcard (backtracking); the parameter / wildcard of the chosen alternative is bound to exactly the
 * current segment, after the earlier bindings and before the child's; bindings of abandoned alternatives are gone; on failure
 * params/splats are as they were; an exhausted path yields the node's own route, else what an absent trailing optional yields.
 * Induction over (remaining path, tree height) extends the step to trees and paths of any size.                                   */
#include "vp.h"
#include "libc.h"
#include "ghost.h"
#include "offsets.h"
#ifndef NPAR
#define NPAR 2
#endif
#define KMAX 2          /* key / segment / parameter-name length bound */
void _ZNK8Pistache4Rest15SegmentTreeNode9findRouteERKSt17basic_string_viewIcSt11char_traitsIcEERSt6vectorINS0_10TypedParamESaIS9_EESC_(u8*, u8*, u8*, u8*, u8*);
#include "c10_models.h"
#define NCH 6                                  /* children: 0,1 fixed  2,3 parameter  4 optional  5 splat */
static u8 node[SIZEOF_Node] __attribute__((aligned(8)));
static u8 child[NCH][SIZEOF_Node] __attribute__((aligned(8)));
static entry_t ent_fixed[2], ent_param[2], ent_opt[1];
static u8 routes[NCH + 1][8];
/* ------------------------------------------------------------------ induction hypothesis: the recursive call on child k */
static u8 ch_found[NCH]; static u8 ch_np[NCH], ch_ns[NCH]; static u16 ch_pitem[NCH], ch_sitem[NCH];   /* oracle */
static u8* exp_lower_p; static u64 exp_lower_len; static u64 seg_len; static int path_empty;
static int ncalls;
void vp_rec_findRoute(u8* ret, u8* self, u8* path, u8* params, u8* splats) {
  int k = -1; for (int i = 0; i < NCH; i++) if (self == child[i]) k = i;
  __CPROVER_assert(k >= 0, "findRoute recurses only into children of the node");
  ncalls++;
  sv_t* p = (sv_t*)path;
  if (path_empty) __CPROVER_assert(k == 4 && p->len == 0, "with the path exhausted only the (absent) trailing optional is consulted, with the empty path");
  else __CPROVER_assert(p->len == exp_lower_len && (p->len == 0 || p->p == exp_lower_p), "a child is asked about exactly the lower path (the text after the first '/')");
  if (k < 0) { __CPROVER_assume(0); }
  if (ch_found[k]) {
    if (ch_np[k]) gv_push(GV(params), ch_pitem[k]);
    if (ch_ns[k]) gv_push(GV(splats), ch_sitem[k]);
    mk_result(ret, routes[k], params, splats);
  } else {
    static gvec_t e1, e2; e1.n = 0; e1.w = 0; e1.w2 = 0; e2.n = 0; e2.w = 0; e2.w2 = 0;
    mk_result(ret, 0, (u8*)&e1, (u8*)&e2);
  } }

int main(void) {
  __ir_init_globals();
  /* keys and names: symbolic bytes (no '/'); fixed keys are distinct */
  for (int i = 0; i < 32; i++) { VP_SET(u8, arena[i], "key"); __CPROVER_assume(arena[i] != '/'); }
  u32 nf, np, no, hs, hr; VP_SET(u32, nf, "nf"); VP_SET(u32, np, "np"); VP_SET(u32, no, "no"); VP_SET(u32, hs, "hs"); VP_SET(u32, hr, "hr");
  __CPROVER_assume(nf <= 2 && np <= NPAR && no <= 1 && hs <= 1 && hr <= 1);
  u64 kl[5]; for (int i = 0; i < 5; i++) { VP_SET(u64, kl[i], "klen"); __CPROVER_assume(kl[i] >= 1 && kl[i] <= KMAX); }
  GM_(node + OFF_Node_fixed)->n = nf; GM_(node + OFF_Node_fixed)->e = ent_fixed;
  GM_(node + OFF_Node_param)->n = np; GM_(node + OFF_Node_param)->e = ent_param;
  GM_(node + OFF_Node_optional)->n = no; GM_(node + OFF_Node_optional)->e = ent_opt;
  for (int k = 0; k < 2; k++) { ent_fixed[k].key.p = arena + 4 * k; ent_fixed[k].key.len = kl[k]; ent_fixed[k].node = child[k]; ent_fixed[k].ctrl = 0; }
  for (int k = 0; k < 2; k++) { ent_param[k].key.p = arena + 8 + 4 * k; ent_param[k].key.len = kl[2 + k]; ent_param[k].node = child[2 + k]; ent_param[k].ctrl = 0; }
  ent_opt[0].key.p = arena + 16; ent_opt[0].key.len = kl[4]; ent_opt[0].node = child[4]; ent_opt[0].ctrl = 0;
  if (nf == 2) __CPROVER_assume(!sv_eq(&ent_fixed[0].key, &ent_fixed[1].key));
  *(u8**)(node + OFF_Node_splat) = hs ? (u8*)child[5] : (u8*)0;
  *(u8**)(node + OFF_Node_route) = hr ? (u8*)routes[NCH] : (u8*)0;
  /* path: empty, or a segment of 1..KMAX bytes (no '/'), optionally followed by '/' and a lower path of 0..3 arbitrary bytes */
  u32 pe, hl; VP_SET(u32, pe, "path_empty"); VP_SET(u32, hl, "has_lower"); __CPROVER_assume(pe <= 1 && hl <= 1);
  u64 ll; VP_SET(u64, seg_len, "seg_len"); VP_SET(u64, ll, "lower_len"); __CPROVER_assume(seg_len >= 1 && seg_len <= KMAX && ll <= 3);
  for (int i = 0; i < PMAX; i++) { VP_SET(u8, PATH[i], "path"); }
  for (int i = 0; i < KMAX; i++) if (i < (int)seg_len) __CPROVER_assume(PATH[i] != '/');
  u64 plen; path_empty = (int)pe;
  if (pe) plen = 0;
  else if (!hl) { plen = seg_len; exp_lower_len = 0; exp_lower_p = 0; }
  else { __CPROVER_assume(PATH[seg_len] == '/'); plen = seg_len + 1 + ll; exp_lower_len = ll; exp_lower_p = PATH + seg_len + 1; }
  /* oracle for the children and earlier bindings */
  for (int k = 0; k < NCH; k++) { VP_SET(u8, ch_found[k], "found"); VP_SET(u8, ch_np[k], "cnp"); VP_SET(u8, ch_ns[k], "cns"); VP_SET(u16, ch_pitem[k], "cpitem"); VP_SET(u16, ch_sitem[k], "csitem");
    __CPROVER_assume(ch_found[k] <= 1 && ch_np[k] <= 1 && ch_ns[k] <= 1); }
  static gvec_t params, splats; u64 p0n, s0n; u64 p0w, s0w;
  VP_SET(u64, p0n, "p0n"); VP_SET(u64, s0n, "s0n"); VP_SET(u64, p0w, "p0w"); VP_SET(u64, s0w, "s0w"); __CPROVER_assume(p0n <= 2 && s0n <= 2);
  p0w &= p0n == 0 ? 0 : p0n == 1 ? 0xffff : 0xffffffff; s0w &= s0n == 0 ? 0 : s0n == 1 ? 0xffff : 0xffffffff;
  params.n = p0n; params.w = p0w; params.w2 = 0; splats.n = s0n; splats.w = s0w; splats.w2 = 0;
  /* run one level of the real matcher */
  static u8 result[SIZEOF_FindResult] __attribute__((aligned(8)));
  sv_t path = { plen, PATH };
  _ZNK8Pistache4Rest15SegmentTreeNode9findRouteERKSt17basic_string_viewIcSt11char_traitsIcEERSt6vectorINS0_10TypedParamESaIS9_EESC_(result, node, (u8*)&path, (u8*)&params, (u8*)&splats);
  __CPROVER_assert(!vp_take_exception(), "findRoute does not throw");
  u8* got = *(u8**)(result + OFF_FindResult_route);
  gvec_t* gp = GV(result + OFF_FindResult_params); gvec_t* gs = GV(result + OFF_FindResult_splats);
  /* reference for this level */
  u8* want = 0; gvec_t wp = { p0n, p0w, 0 }, ws = { s0n, s0w, 0 }; int done = 0;
#define TAKE(k, pushp, pushs) do { if (!done && ch_found[k]) { done = 1; want = routes[k]; pushp; pushs; if (ch_np[k]) gv_push(&wp, ch_pitem[k]); if (ch_ns[k]) gv_push(&ws, ch_sitem[k]); } } while (0)
  if (pe) {
#ifndef IMPL_OPTIONAL_SHADOWS_ROUTE
    if (hr) { done = 1; want = routes[NCH]; }
#endif
    if (!done && no) { TAKE(4, (void)0, (void)0); done = 1; }
    if (!done && hr) { done = 1; want = routes[NCH]; }
  } else {
    sv_t seg = { seg_len, PATH };
    for (int k = 0; k < 2; k++) if (k < (int)nf && sv_eq(&ent_fixed[k].key, &seg)) TAKE(k, (void)0, (void)0);
    for (int k = 0; k < 2; k++) if (k < (int)np) TAKE(2 + k, gv_push(&wp, pack(ent_param[k].key.p, ent_param[k].key.len, PATH, seg_len)), (void)0);
    if (no) TAKE(4, gv_push(&wp, pack(ent_opt[0].key.p, ent_opt[0].key.len, PATH, seg_len)), (void)0);
    if (hs) TAKE(5, (void)0, gv_push(&ws, pack(PATH, seg_len, PATH, seg_len)));
  }
  VP_OBS("found", want != 0);
  __CPROVER_assert((got != 0) == (want != 0), "a route is found iff the table prescribes one for this path");
  if (want && got) {
    __CPROVER_assert(got == want, "the route found is the matching route of highest precedence (fixed > parameter > optional > wildcard, with backtracking)");
    __CPROVER_assert(gp->n == wp.n && gp->w == wp.w && gp->w2 == wp.w2, "parameters: earlier bindings, then this level's parameter bound to exactly the current segment, then the child's; abandoned branches dropped");
    __CPROVER_assert(gs->n == ws.n && gs->w == ws.w && gs->w2 == ws.w2, "wildcards: earlier bindings, then this level's wildcard bound to exactly the current segment, then the child's");
  }
  if (!want && !got) {
    __CPROVER_assert(params.n == p0n && params.w == p0w && params.w2 == 0 && splats.n == s0n && splats.w == s0w && splats.w2 == 0, "when nothing matches, the bindings passed in are left as they were (every tentative binding was removed)");
    __CPROVER_assert(gp->n == 0 && gs->n == 0, "a failed lookup returns no bindings");
  }
  VP_END("witness: end of harness reached");
  return 0;
}
