/* C10(a): SegmentTreeNode::findRoute (src/server/router.cc, sel mode) on a SYMBOLIC segment tree.
 * The tree is a pool of NNODES nodes; every node has 0..2 fixed children (keys "a"/"b"), 0..NPAR parameter children, 0..1 optional
 * child, possibly a splat child and possibly a route; child links are arbitrary forward links (every tree addRoute can build with
 * these keys is among them).  The request path has exactly NSEG segments over {a,b}.  The real findRoute is compared with a
 * reference matcher written from the property: fixed over parameter over optional over wildcard, decided segment by segment with
 * backtracking; an exact route wins over an absent trailing optional; parameters / wildcards bound to the corresponding path
 * segments, bindings of abandoned branches dropped.  Containers are ghost models at method boundaries:
 *   unordered_map<string_view, shared_ptr<Node>>  = { n, entries } with real pair layout, iteration in entry order;
 *   vector<TypedParam> = { n, packed items } (item = name offset/length + value offset/length inside one byte arena);
 *   shared_ptr = { pointer, unused }; tuple = real layout (offsets generated from the headers).                                   */
#include "vp.h"
#include "libc.h"
#include "ghost.h"
#include "offsets.h"
#ifndef NNODES
#define NNODES 4
#endif
#ifndef NSEG
#define NSEG 2
#endif
#ifndef NPAR
#define NPAR 1
#endif
void _ZNK8Pistache4Rest15SegmentTreeNode9findRouteERKSt17basic_string_viewIcSt11char_traitsIcEERSt6vectorINS0_10TypedParamESaIS9_EESC_(u8*, u8*, u8*, u8*, u8*);
/* ------------------------------------------------------------------ byte arena: keys at [0,32), path at [32,64) */
static u8 arena[64];
#define PATH (arena + 32)
typedef struct { u64 len; u8* p; } sv_t;
typedef struct { sv_t key; u8* node; u8* ctrl; } entry_t;
_Static_assert(sizeof(entry_t) == SIZEOF_NodeMapEntry && offsetof(entry_t, node) == OFF_NodeMapEntry_second && sizeof(sv_t) == SIZEOF_StringView, "map entry layout");
typedef struct { u64 n; entry_t* e; } gmapn_t;
typedef struct { u64 n; u64 w; u64 pad; } gvec_t;
#define GM_(m) ((gmapn_t*)(m))
#define GV(v) ((gvec_t*)(v))
static u8 nodes[NNODES][SIZEOF_Node] __attribute__((aligned(8)));
static entry_t ent_fixed[NNODES][2], ent_param[NNODES][2], ent_opt[NNODES][1];
static u8 routes[NNODES][8];
/* ------------------------------------------------------------------ string_view */
u8 _ZNKSt17basic_string_viewIcSt11char_traitsIcEE5emptyEv(u8* s) { return ((sv_t*)s)->len == 0; }
u8* _ZNKSt17basic_string_viewIcSt11char_traitsIcEE4dataEv(u8* s) { return ((sv_t*)s)->p; }
u64 _ZNKSt17basic_string_viewIcSt11char_traitsIcEE6lengthEv(u8* s) { return ((sv_t*)s)->len; }
void _ZNSt17basic_string_viewIcSt11char_traitsIcEEC2EPKcm(u8* s, u8* p, u64 n) { ((sv_t*)s)->p = p; ((sv_t*)s)->len = n; }
/* find(c, pos): generic scan g; the harness builds paths of one-byte segments, so for find('/', 0) on a view that starts at a
 * segment the answer is 1 (more segments follow) or npos -- returned in that constant form (keeps the recursion depth concrete for
 * the solver) after asserting that it equals the generic scan */
u64 _ZNKSt17basic_string_viewIcSt11char_traitsIcEE4findEcm(u8* s, u8 c, u64 pos) {
  sv_t* v = (sv_t*)s; u64 g = ~(u64)0;
  for (u64 i = 2 * NSEG + 1; i > 0; i--) { u64 j = i - 1; if (j >= pos && j < v->len && v->p[j] == c) g = j; }
  if (c == '/' && pos == 0) { u64 shape = v->len > 1 ? 1 : ~(u64)0; __CPROVER_assert(g == shape, "harness bound: paths consist of one-byte segments"); return shape; }
  return g; }
agg16_8 _ZNKSt17basic_string_viewIcSt11char_traitsIcEE6substrEmm(u8* s, u64 pos, u64 n) {
  sv_t* v = (sv_t*)s; agg16_8 r; sv_t* o = (sv_t*)&r;
  if (pos > v->len) { _ZSt24__throw_out_of_range_fmtPKcz(0); o->len = 0; o->p = 0; return r; }
  u64 rem = v->len - pos; o->p = v->p + pos; o->len = n < rem ? n : rem; return r; }
static int sv_eq(sv_t* a, sv_t* b) { if (a->len != b->len) return 0; for (u64 i = 0; i < 3; i++) if (i < a->len && a->p[i] != b->p[i]) return 0; return 1; }
/* ------------------------------------------------------------------ unordered_map<string_view, shared_ptr<Node>> */
#define UM "_ZNKSt13unordered_mapISt17basic_string_viewIcSt11char_traitsIcEESt10shared_ptrIN8Pistache4Rest15SegmentTreeNodeEESt4hashIS3_ESt8equal_toIS3_ESaISt4pairIKS3_S8_EEE"
u64 _ZNKSt13unordered_mapISt17basic_string_viewIcSt11char_traitsIcEESt10shared_ptrIN8Pistache4Rest15SegmentTreeNodeEESt4hashIS3_ESt8equal_toIS3_ESaISt4pairIKS3_S8_EEE5countERSE_(u8* m, u8* k) {
  for (u64 i = 0; i < 2; i++) if (i < GM_(m)->n && sv_eq(&GM_(m)->e[i].key, (sv_t*)k)) return 1; return 0; }
u8* _ZNKSt13unordered_mapISt17basic_string_viewIcSt11char_traitsIcEESt10shared_ptrIN8Pistache4Rest15SegmentTreeNodeEESt4hashIS3_ESt8equal_toIS3_ESaISt4pairIKS3_S8_EEE2atERSE_(u8* m, u8* k) {
  for (u64 i = 0; i < 2; i++) if (i < GM_(m)->n && sv_eq(&GM_(m)->e[i].key, (sv_t*)k)) return (u8*)&GM_(m)->e[i].node;
  vp_throw_std(_ZTISt12out_of_range); return 0; }
u8* _ZNKSt13unordered_mapISt17basic_string_viewIcSt11char_traitsIcEESt10shared_ptrIN8Pistache4Rest15SegmentTreeNodeEESt4hashIS3_ESt8equal_toIS3_ESaISt4pairIKS3_S8_EEE5beginEv(u8* m) { return (u8*)&GM_(m)->e[0]; }
u8* _ZNKSt13unordered_mapISt17basic_string_viewIcSt11char_traitsIcEESt10shared_ptrIN8Pistache4Rest15SegmentTreeNodeEESt4hashIS3_ESt8equal_toIS3_ESaISt4pairIKS3_S8_EEE3endEv(u8* m) { return (u8*)&GM_(m)->e[GM_(m)->n]; }
u8 _ZNKSt13unordered_mapISt17basic_string_viewIcSt11char_traitsIcEESt10shared_ptrIN8Pistache4Rest15SegmentTreeNodeEESt4hashIS3_ESt8equal_toIS3_ESaISt4pairIKS3_S8_EEE5emptyEv(u8* m) { return GM_(m)->n == 0; }
u8 _ZNSt8__detailneERKNS_19_Node_iterator_baseISt4pairIKSt17basic_string_viewIcSt11char_traitsIcEESt10shared_ptrIN8Pistache4Rest15SegmentTreeNodeEEELb1EEESF_(u8* a, u8* b) { return *(u8**)a != *(u8**)b; }
u8* _ZNKSt8__detail20_Node_const_iteratorISt4pairIKSt17basic_string_viewIcSt11char_traitsIcEESt10shared_ptrIN8Pistache4Rest15SegmentTreeNodeEEELb0ELb1EEdeEv(u8* it) { return *(u8**)it; }
u8* _ZNKSt8__detail20_Node_const_iteratorISt4pairIKSt17basic_string_viewIcSt11char_traitsIcEESt10shared_ptrIN8Pistache4Rest15SegmentTreeNodeEEELb0ELb1EEptEv(u8* it) { return *(u8**)it; }
u8* _ZNSt8__detail20_Node_const_iteratorISt4pairIKSt17basic_string_viewIcSt11char_traitsIcEESt10shared_ptrIN8Pistache4Rest15SegmentTreeNodeEEELb0ELb1EEppEv(u8* it) { *(u8**)it += sizeof(entry_t); return it; }
/* ------------------------------------------------------------------ shared_ptr */
u8* _ZNKSt19__shared_ptr_accessIN8Pistache4Rest15SegmentTreeNodeELN9__gnu_cxx12_Lock_policyE2ELb0ELb0EEptEv(u8* sp) { return *(u8**)sp; }
u8 _ZStneIN8Pistache4Rest15SegmentTreeNodeEEbRKSt10shared_ptrIT_EDn(u8* sp, u8* n) { (void)n; return *(u8**)sp != 0; }
void _ZNSt10shared_ptrIN8Pistache4Rest5RouteEEC2ERKS3_(u8* d, u8* s) { *(u8**)d = *(u8**)s; *(u8**)(d + 8) = 0; }
void _ZNSt10shared_ptrIN8Pistache4Rest5RouteEEC2EDn(u8* d, u8* n) { (void)n; *(u8**)d = 0; *(u8**)(d + 8) = 0; }
u8* _ZNSt10shared_ptrIN8Pistache4Rest5RouteEEaSEOS3_(u8* d, u8* s) { *(u8**)d = *(u8**)s; *(u8**)s = 0; return d; }
u8* _ZNSt10shared_ptrIN8Pistache4Rest5RouteEEaSERKS3_(u8* d, u8* s) { *(u8**)d = *(u8**)s; return d; }
u8 _ZStneIN8Pistache4Rest5RouteEEbRKSt10shared_ptrIT_EDn(u8* sp, u8* n) { (void)n; return *(u8**)sp != 0; }
u8 _ZSteqIN8Pistache4Rest5RouteEEbRKSt10shared_ptrIT_EDn(u8* sp, u8* n) { (void)n; return *(u8**)sp == 0; }
void _ZNSt12__shared_ptrIN8Pistache4Rest5RouteELN9__gnu_cxx12_Lock_policyE2EED2Ev(u8* sp) { (void)sp; }
/* ------------------------------------------------------------------ vector<TypedParam>: packed items (16 bits each) */
static u64 pack(u8* np, u64 nl, u8* vp, u64 vl) {
  __CPROVER_assert(nl <= 3 && vl <= 3, "ghost vector item: name/value of at most 3 bytes (harness bound)");
  u64 no = nl ? (u64)(np - arena) : 0, vo = vl ? (u64)(vp - arena) : 0;
  __CPROVER_assert(no < 64 && vo < 64, "ghost vector item: name/value bytes lie in the harness arena (keys or path)");
  return (no & 63) | ((nl & 3) << 6) | ((vo & 63) << 8) | ((vl & 3) << 14); }
void _ZNSt6vectorIN8Pistache4Rest10TypedParamESaIS2_EEC2Ev(u8* v) { GV(v)->n = 0; GV(v)->w = 0; }
void _ZNSt6vectorIN8Pistache4Rest10TypedParamESaIS2_EED2Ev(u8* v) { (void)v; }
void _ZNSt6vectorIN8Pistache4Rest10TypedParamESaIS2_EEC2EOS4_(u8* d, u8* s) { GV(d)->n = GV(s)->n; GV(d)->w = GV(s)->w; GV(s)->n = 0; GV(s)->w = 0; }
u8* _ZNSt6vectorIN8Pistache4Rest10TypedParamESaIS2_EEaSEOS4_(u8* d, u8* s) { GV(d)->n = GV(s)->n; GV(d)->w = GV(s)->w; GV(s)->n = 0; GV(s)->w = 0; return d; }
static u8 tp_dummy[SIZEOF_TypedParam];
u8* _ZNSt6vectorIN8Pistache4Rest10TypedParamESaIS2_EE12emplace_backIJRNSt7__cxx1112basic_stringIcSt11char_traitsIcESaIcEEESC_EEERS2_DpOT_(u8* v, u8* name, u8* val) {
  __CPROVER_assert(GV(v)->n < 4, "ghost vector capacity (4 bindings: harness bound)");
  u64 it = pack(GS(name)->p, GS(name)->len, GS(val)->p, GS(val)->len);
  GV(v)->w |= it << (16 * GV(v)->n); GV(v)->n++; return tp_dummy; }
void _ZNSt6vectorIN8Pistache4Rest10TypedParamESaIS2_EE8pop_backEv(u8* v) {
  __CPROVER_assert(GV(v)->n > 0, "pop_back on a non-empty vector");
  GV(v)->n--; GV(v)->w &= ~((u64)0xffff << (16 * GV(v)->n)); }
/* ------------------------------------------------------------------ tuple<shared_ptr<Route>, vector, vector> (sret) */
void _ZSt10make_tupleIJDnSt6vectorIN8Pistache4Rest10TypedParamESaIS3_EES5_EESt5tupleIJDpNSt25__strip_reference_wrapperINSt5decayIT_E4typeEE6__typeEEEDpOS9_(u8* ret, u8* n, u8* a, u8* b) {
  (void)n; *(u8**)(ret + OFF_FindResult_route) = 0; *(u8**)(ret + OFF_FindResult_route + 8) = 0;
  _ZNSt6vectorIN8Pistache4Rest10TypedParamESaIS2_EEC2EOS4_(ret + OFF_FindResult_params, a); _ZNSt6vectorIN8Pistache4Rest10TypedParamESaIS2_EEC2EOS4_(ret + OFF_FindResult_splats, b); }
void _ZSt10make_tupleIJRKSt10shared_ptrIN8Pistache4Rest5RouteEESt6vectorINS2_10TypedParamESaIS8_EESA_EESt5tupleIJDpNSt25__strip_reference_wrapperINSt5decayIT_E4typeEE6__typeEEEDpOSE_(u8* ret, u8* r, u8* a, u8* b) {
  *(u8**)(ret + OFF_FindResult_route) = *(u8**)r; *(u8**)(ret + OFF_FindResult_route + 8) = 0;
  _ZNSt6vectorIN8Pistache4Rest10TypedParamESaIS2_EEC2EOS4_(ret + OFF_FindResult_params, a); _ZNSt6vectorIN8Pistache4Rest10TypedParamESaIS2_EEC2EOS4_(ret + OFF_FindResult_splats, b); }

/* ------------------------------------------------------------------ reference matcher (written from the property) */
typedef struct { u8* route; u64 pn, pw, sn, sw; } ref_t;
static u64 seg_item_name_key(entry_t* e, u64 seg) { return pack(e->key.p, e->key.len, PATH + 2 * seg, 1); }
static int ref_find(u8* node, u64 seg, ref_t* st) {
  gmapn_t* fx = GM_(node + OFF_Node_fixed); gmapn_t* pa = GM_(node + OFF_Node_param); gmapn_t* op = GM_(node + OFF_Node_optional);
  u8* splat = *(u8**)(node + OFF_Node_splat); u8* route = *(u8**)(node + OFF_Node_route);
  if (seg == NSEG) {                       /* path exhausted: the node's own route, else a trailing optional that is absent */
#ifndef IMPL_OPTIONAL_SHADOWS_ROUTE
    if (route) { st->route = route; return 1; }
#endif
    if (op->n) return ref_find(op->e[0].node, seg, st);
    if (route) { st->route = route; return 1; }
    return 0; }
  u8 c = PATH[2 * seg];
  for (u64 i = 0; i < 2; i++) if (i < fx->n && fx->e[i].key.len == 1 && fx->e[i].key.p[0] == c) { if (ref_find(fx->e[i].node, seg + 1, st)) return 1; }
  for (u64 i = 0; i < 2; i++) if (i < pa->n) {
    u64 it = seg_item_name_key(&pa->e[i], seg); st->pw |= it << (16 * st->pn); st->pn++;
    if (ref_find(pa->e[i].node, seg + 1, st)) return 1;
    st->pn--; st->pw &= ~((u64)0xffff << (16 * st->pn)); }
  for (u64 i = 0; i < 1; i++) if (i < op->n) {
    u64 it = seg_item_name_key(&op->e[i], seg); st->pw |= it << (16 * st->pn); st->pn++;
    if (ref_find(op->e[i].node, seg + 1, st)) return 1;
    st->pn--; st->pw &= ~((u64)0xffff << (16 * st->pn)); }
  if (splat) {
    u64 it = pack(PATH + 2 * seg, 1, PATH + 2 * seg, 1); st->sw |= it << (16 * st->sn); st->sn++;
    if (ref_find(splat, seg + 1, st)) return 1;
    st->sn--; st->sw &= ~((u64)0xffff << (16 * st->sn)); }
  return 0; }

u32 nondet_u32(void);
int main(void) {
  __ir_init_globals();
  /* keys: "a" "b" at arena[0..2), parameter names at arena[4..), one byte each preceded by ':' as addRoute stores them */
  arena[0] = 'a'; arena[1] = 'b';
  for (int i = 0; i < 8; i++) { arena[4 + 2 * i] = ':'; VP_SET(u8, arena[5 + 2 * i], "pname"); }
  /* path: NSEG one-byte segments over {a,b} separated by '/' */
  for (int s = 0; s < NSEG; s++) { u8 c; VP_SET(u8, c, "seg"); __CPROVER_assume(c == 'a' || c == 'b'); PATH[2 * s] = c; if (s + 1 < NSEG) PATH[2 * s + 1] = '/'; }
  u64 plen = NSEG ? 2 * NSEG - 1 : 0;
  /* symbolic tree */
  for (int i = 0; i < NNODES; i++) {
    u8* nd = nodes[i];
    u32 nf, np, no, hs, hr; VP_SET(u32, nf, "nf"); VP_SET(u32, np, "np"); VP_SET(u32, no, "no"); VP_SET(u32, hs, "hs"); VP_SET(u32, hr, "hr");
    __CPROVER_assume(nf <= 2 && np <= NPAR && no <= 1 && hs <= 1 && hr <= 1);
    if (i == NNODES - 1) __CPROVER_assume(nf == 0 && np == 0 && no == 0 && hs == 0);
#define CHILD(var, nm) u32 var; VP_SET(u32, var, nm); __CPROVER_assume(var > (u32)i && var < NNODES);
    GM_(nd + OFF_Node_fixed)->n = nf; GM_(nd + OFF_Node_fixed)->e = ent_fixed[i];
    u32 swap; VP_SET(u32, swap, "swap"); __CPROVER_assume(swap <= 1);
    for (int k = 0; k < 2; k++) if (k < (int)nf) { CHILD(ci, "fchild") ent_fixed[i][k].key.p = arena + ((k ^ swap) & 1); ent_fixed[i][k].key.len = 1; ent_fixed[i][k].node = nodes[ci]; ent_fixed[i][k].ctrl = 0; }
    GM_(nd + OFF_Node_param)->n = np; GM_(nd + OFF_Node_param)->e = ent_param[i];
    for (int k = 0; k < NPAR; k++) if (k < (int)np) { CHILD(ci, "pchild") ent_param[i][k].key.p = arena + 4 + 2 * ((2 * i + k) & 7); ent_param[i][k].key.len = 2; ent_param[i][k].node = nodes[ci]; ent_param[i][k].ctrl = 0; }
    GM_(nd + OFF_Node_optional)->n = no; GM_(nd + OFF_Node_optional)->e = ent_opt[i];
    if (no) { CHILD(ci, "ochild") ent_opt[i][0].key.p = arena + 4 + 2 * ((2 * i + 5) & 7); ent_opt[i][0].key.len = 2; ent_opt[i][0].node = nodes[ci]; ent_opt[i][0].ctrl = 0; }
    if (hs) { CHILD(ci, "schild") *(u8**)(nd + OFF_Node_splat) = nodes[ci]; } else *(u8**)(nd + OFF_Node_splat) = 0;
    *(u8**)(nd + OFF_Node_route) = hr ? (u8*)routes[i] : (u8*)0;
  }
  /* run the real matcher */
  static u8 result[SIZEOF_FindResult] __attribute__((aligned(8)));
  static gvec_t params, splats; params.n = 0; params.w = 0; splats.n = 0; splats.w = 0;
  sv_t path = { plen, PATH };
  _ZNK8Pistache4Rest15SegmentTreeNode9findRouteERKSt17basic_string_viewIcSt11char_traitsIcEERSt6vectorINS0_10TypedParamESaIS9_EESC_(result, nodes[0], (u8*)&path, (u8*)&params, (u8*)&splats);
  __CPROVER_assert(!vp_take_exception(), "findRoute does not throw");
  u8* got = *(u8**)(result + OFF_FindResult_route);
  /* reference */
  ref_t st = { 0, 0, 0, 0, 0 };
  int found = ref_find(nodes[0], 0, &st);
  VP_OBS("found", found);
  __CPROVER_assert((got != 0) == (found != 0), "a route is found iff the table prescribes one for this path");
  if (found && got) {
    __CPROVER_assert(got == st.route, "the route found is the matching route of highest precedence (fixed > parameter > optional > wildcard, with backtracking)");
    __CPROVER_assert(GV(result + OFF_FindResult_params)->n == st.pn && GV(result + OFF_FindResult_params)->w == st.pw, "parameters are bound to the corresponding path segments, in path order, abandoned branches dropped");
    __CPROVER_assert(GV(result + OFF_FindResult_splats)->n == st.sn && GV(result + OFF_FindResult_splats)->w == st.sw, "wildcards are bound to the corresponding path segments");
  }
  VP_END("witness: end of harness reached");
  return 0;
}
