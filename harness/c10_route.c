/* C10(a): SegmentTreeNode::findRoute (src/server/router.cc, sel mode) -- ONE INDUCTIVE STEP on an arbitrary node.
 * The node under test has 0..2 fixed children, 0..NPAR parameter children, 0..1 optional child, possibly a splat child and
 * possibly a route, with SYMBOLIC keys (1..2 bytes) and parameter names; the request path is empty or starts with a symbolic
 * segment of 1..2 bytes followed or not by a lower path; params/splats already hold 0..2 arbitrary bindings.  The recursive
 * calls findRoute makes on its children are redirected (by the translator, see 'selfcall') to a stub that IS the induction
 * hypothesis: for child k and the lower path it answers an arbitrary but fixed outcome -- not found (params/splats untouched, empty
 * vectors returned) or found with route r_k and the bindings passed in followed by arbitrary further bindings.
 * Asserted against a reference written from the property: the result is that of the first alternative that succeeds in the order
 * fixed > parameter > optional > wildcard (backtracking); the parameter / wildcard of the chosen alternative is bound to exactly the
 * current segment, after the earlier bindings and before the child's; bindings of abandoned alternatives are gone; on failure
 * params/splats are as they were; an exhausted path yields the node's own route, else what an absent trailing optional yields.
 * Induction over (remaining path, tree height) extends the step to trees and paths of any size.                                   */
#include "vp.h"
#include "libc.h"
#include "ghost.h"
#include "offsets.h"
#ifndef NPAR
#define NPAR 2
#endif
#define KMAX 2          /* key / segment / parameter-name length bound */
void _ZNK8Pistache4Rest15SegmentTreeNode9findRouteERKSt17basic_string_viewIcSt11char_traitsIcEERSt6vectorINS0_10TypedParamESaIS9_EESC_(u8*, u8*, u8*, u8*, u8*);
/* ------------------------------------------------------------------ byte arena: keys at [0,32), path at [32,64) */
static u8 arena[64];
#define PATH (arena + 32)
typedef struct { u64 len; u8* p; } sv_t;
typedef struct { sv_t key; u8* node; u8* ctrl; } entry_t;
_Static_assert(sizeof(entry_t) == SIZEOF_NodeMapEntry && offsetof(entry_t, node) == OFF_NodeMapEntry_second && sizeof(sv_t) == SIZEOF_StringView, "map entry layout");
typedef struct { u64 n; entry_t* e; } gmapn_t;
typedef struct { u64 n; u64 w; u64 w2; } gvec_t;   /* items 0..3 in w, 4..7 in w2 */
#define GM_(m) ((gmapn_t*)(m))
#define GV(v) ((gvec_t*)(v))
#define NCH 6                                  /* children: 0,1 fixed  2,3 parameter  4 optional  5 splat */
static u8 node[SIZEOF_Node] __attribute__((aligned(8)));
static u8 child[NCH][SIZEOF_Node] __attribute__((aligned(8)));
static entry_t ent_fixed[2], ent_param[2], ent_opt[1];
static u8 routes[NCH + 1][8];
/* ------------------------------------------------------------------ string_view */
u8 _ZNKSt17basic_string_viewIcSt11char_traitsIcEE5emptyEv(u8* s) { return ((sv_t*)s)->len == 0; }
u8* _ZNKSt17basic_string_viewIcSt11char_traitsIcEE4dataEv(u8* s) { return ((sv_t*)s)->p; }
u64 _ZNKSt17basic_string_viewIcSt11char_traitsIcEE6lengthEv(u8* s) { return ((sv_t*)s)->len; }
void _ZNSt17basic_string_viewIcSt11char_traitsIcEEC2EPKcm(u8* s, u8* p, u64 n) { ((sv_t*)s)->p = p; ((sv_t*)s)->len = n; }
#define PMAX 8
u64 _ZNKSt17basic_string_viewIcSt11char_traitsIcEE4findEcm(u8* s, u8 c, u64 pos) { sv_t* v = (sv_t*)s; u64 g = ~(u64)0; for (u64 i = PMAX; i > 0; i--) { u64 j = i - 1; if (j >= pos && j < v->len && v->p[j] == c) g = j; } return g; }
agg16_8 _ZNKSt17basic_string_viewIcSt11char_traitsIcEE6substrEmm(u8* s, u64 pos, u64 n) {
  sv_t* v = (sv_t*)s; agg16_8 r; sv_t* o = (sv_t*)&r;
  if (pos > v->len) { _ZSt24__throw_out_of_range_fmtPKcz(0); o->len = 0; o->p = 0; return r; }
  u64 rem = v->len - pos; o->p = v->p + pos; o->len = n < rem ? n : rem; return r; }
static int sv_eq(sv_t* a, sv_t* b) { if (a->len != b->len) return 0; for (u64 i = 0; i < KMAX; i++) if (i < a->len && a->p[i] != b->p[i]) return 0; return 1; }
/* ------------------------------------------------------------------ unordered_map<string_view, shared_ptr<Node>> */
u64 _ZNKSt13unordered_mapISt17basic_string_viewIcSt11char_traitsIcEESt10shared_ptrIN8Pistache4Rest15SegmentTreeNodeEESt4hashIS3_ESt8equal_toIS3_ESaISt4pairIKS3_S8_EEE5countERSE_(u8* m, u8* k) {
  for (u64 i = 0; i < 2; i++) if (i < GM_(m)->n && sv_eq(&GM_(m)->e[i].key, (sv_t*)k)) return 1; return 0; }
u8* _ZNKSt13unordered_mapISt17basic_string_viewIcSt11char_traitsIcEESt10shared_ptrIN8Pistache4Rest15SegmentTreeNodeEESt4hashIS3_ESt8equal_toIS3_ESaISt4pairIKS3_S8_EEE2atERSE_(u8* m, u8* k) {
  for (u64 i = 0; i < 2; i++) if (i < GM_(m)->n && sv_eq(&GM_(m)->e[i].key, (sv_t*)k)) return (u8*)&GM_(m)->e[i].node;
  vp_throw_std(_ZTISt12out_of_range); return 0; }
u8* _ZNKSt13unordered_mapISt17basic_string_viewIcSt11char_traitsIcEESt10shared_ptrIN8Pistache4Rest15SegmentTreeNodeEESt4hashIS3_ESt8equal_toIS3_ESaISt4pairIKS3_S8_EEE5beginEv(u8* m) { return (u8*)&GM_(m)->e[0]; }
u8* _ZNKSt13unordered_mapISt17basic_string_viewIcSt11char_traitsIcEESt10shared_ptrIN8Pistache4Rest15SegmentTreeNodeEESt4hashIS3_ESt8equal_toIS3_ESaISt4pairIKS3_S8_EEE3endEv(u8* m) { return (u8*)&GM_(m)->e[GM_(m)->n]; }
u8 _ZNKSt13unordered_mapISt17basic_string_viewIcSt11char_traitsIcEESt10shared_ptrIN8Pistache4Rest15SegmentTreeNodeEESt4hashIS3_ESt8equal_toIS3_ESaISt4pairIKS3_S8_EEE5emptyEv(u8* m) { return GM_(m)->n == 0; }
u8 _ZNSt8__detailneERKNS_19_Node_iterator_baseISt4pairIKSt17basic_string_viewIcSt11char_traitsIcEESt10shared_ptrIN8Pistache4Rest15SegmentTreeNodeEEELb1EEESF_(u8* a, u8* b) { return *(u8**)a != *(u8**)b; }
u8* _ZNKSt8__detail20_Node_const_iteratorISt4pairIKSt17basic_string_viewIcSt11char_traitsIcEESt10shared_ptrIN8Pistache4Rest15SegmentTreeNodeEEELb0ELb1EEdeEv(u8* it) { return *(u8**)it; }
u8* _ZNKSt8__detail20_Node_const_iteratorISt4pairIKSt17basic_string_viewIcSt11char_traitsIcEESt10shared_ptrIN8Pistache4Rest15SegmentTreeNodeEEELb0ELb1EEptEv(u8* it) { return *(u8**)it; }
u8* _ZNSt8__detail20_Node_const_iteratorISt4pairIKSt17basic_string_viewIcSt11char_traitsIcEESt10shared_ptrIN8Pistache4Rest15SegmentTreeNodeEEELb0ELb1EEppEv(u8* it) { *(u8**)it += sizeof(entry_t); return it; }
/* ------------------------------------------------------------------ shared_ptr */
u8* _ZNKSt19__shared_ptr_accessIN8Pistache4Rest15SegmentTreeNodeELN9__gnu_cxx12_Lock_policyE2ELb0ELb0EEptEv(u8* sp) { return *(u8**)sp; }
u8 _ZStneIN8Pistache4Rest15SegmentTreeNodeEEbRKSt10shared_ptrIT_EDn(u8* sp, u8* n) { (void)n; return *(u8**)sp != 0; }
void _ZNSt10shared_ptrIN8Pistache4Rest5RouteEEC2ERKS3_(u8* d, u8* s) { *(u8**)d = *(u8**)s; *(u8**)(d + 8) = 0; }
void _ZNSt10shared_ptrIN8Pistache4Rest5RouteEEC2EDn(u8* d, u8* n) { (void)n; *(u8**)d = 0; *(u8**)(d + 8) = 0; }
u8* _ZNSt10shared_ptrIN8Pistache4Rest5RouteEEaSEOS3_(u8* d, u8* s) { *(u8**)d = *(u8**)s; *(u8**)s = 0; return d; }
u8* _ZNSt10shared_ptrIN8Pistache4Rest5RouteEEaSERKS3_(u8* d, u8* s) { *(u8**)d = *(u8**)s; return d; }
u8 _ZStneIN8Pistache4Rest5RouteEEbRKSt10shared_ptrIT_EDn(u8* sp, u8* n) { (void)n; return *(u8**)sp != 0; }
u8 _ZSteqIN8Pistache4Rest5RouteEEbRKSt10shared_ptrIT_EDn(u8* sp, u8* n) { (void)n; return *(u8**)sp == 0; }
void _ZNSt12__shared_ptrIN8Pistache4Rest5RouteELN9__gnu_cxx12_Lock_policyE2EED2Ev(u8* sp) { (void)sp; }
/* ------------------------------------------------------------------ vector<TypedParam>: packed items (16 bits each, <= 4) */
static u64 pack(u8* np, u64 nl, u8* vp, u64 vl) {
  __CPROVER_assert(nl <= 3 && vl <= 3, "ghost vector item: name/value of at most 3 bytes (harness bound)");
  u64 no = nl ? (u64)(np - arena) : 0, vo = vl ? (u64)(vp - arena) : 0;
  __CPROVER_assert(no < 64 && vo < 64, "ghost vector item: name/value bytes lie in the harness arena (keys or path)");
  return (no & 63) | ((nl & 3) << 6) | ((vo & 63) << 8) | ((vl & 3) << 14); }
static void gv_push(gvec_t* v, u64 it) { __CPROVER_assert(v->n < 8, "ghost vector capacity (8 bindings: harness bound)"); if (v->n < 4) v->w |= (it & 0xffff) << (16 * v->n); else v->w2 |= (it & 0xffff) << (16 * (v->n - 4)); v->n++; }
static void gv_pop(gvec_t* v) { __CPROVER_assert(v->n > 0, "pop_back on a non-empty vector"); v->n--; if (v->n < 4) v->w &= ~((u64)0xffff << (16 * v->n)); else v->w2 &= ~((u64)0xffff << (16 * (v->n - 4))); }
void _ZNSt6vectorIN8Pistache4Rest10TypedParamESaIS2_EEC2Ev(u8* v) { GV(v)->n = 0; GV(v)->w = 0; GV(v)->w2 = 0; }
void _ZNSt6vectorIN8Pistache4Rest10TypedParamESaIS2_EED2Ev(u8* v) { (void)v; }
void _ZNSt6vectorIN8Pistache4Rest10TypedParamESaIS2_EEC2EOS4_(u8* d, u8* s) { GV(d)->n = GV(s)->n; GV(d)->w = GV(s)->w; GV(d)->w2 = GV(s)->w2; GV(s)->n = 0; GV(s)->w = 0; GV(s)->w2 = 0; }
u8* _ZNSt6vectorIN8Pistache4Rest10TypedParamESaIS2_EEaSEOS4_(u8* d, u8* s) { GV(d)->n = GV(s)->n; GV(d)->w = GV(s)->w; GV(d)->w2 = GV(s)->w2; GV(s)->n = 0; GV(s)->w = 0; GV(s)->w2 = 0; return d; }
static u8 tp_dummy[SIZEOF_TypedParam];
u8* _ZNSt6vectorIN8Pistache4Rest10TypedParamESaIS2_EE12emplace_backIJRNSt7__cxx1112basic_stringIcSt11char_traitsIcESaIcEEESC_EEERS2_DpOT_(u8* v, u8* name, u8* val) {
  gv_push(GV(v), pack(GS(name)->p, GS(name)->len, GS(val)->p, GS(val)->len)); return tp_dummy; }
void _ZNSt6vectorIN8Pistache4Rest10TypedParamESaIS2_EE8pop_backEv(u8* v) { gv_pop(GV(v)); }
/* ------------------------------------------------------------------ tuple<shared_ptr<Route>, vector, vector> (sret) */
static void mk_result(u8* ret, u8* route, u8* a, u8* b) {
  *(u8**)(ret + OFF_FindResult_route) = route; *(u8**)(ret + OFF_FindResult_route + 8) = 0;
  _ZNSt6vectorIN8Pistache4Rest10TypedParamESaIS2_EEC2EOS4_(ret + OFF_FindResult_params, a); _ZNSt6vectorIN8Pistache4Rest10TypedParamESaIS2_EEC2EOS4_(ret + OFF_FindResult_splats, b); }
void _ZSt10make_tupleIJDnSt6vectorIN8Pistache4Rest10TypedParamESaIS3_EES5_EESt5tupleIJDpNSt25__strip_reference_wrapperINSt5decayIT_E4typeEE6__typeEEEDpOS9_(u8* ret, u8* n, u8* a, u8* b) {
  /* tuple<nullptr_t, vector, vector>: 56 bytes, the first element is a bare nullptr_t (no control-block word) */
  (void)n; *(u8**)(ret + OFF_FindResult_route) = 0;
  _ZNSt6vectorIN8Pistache4Rest10TypedParamESaIS2_EEC2EOS4_(ret + OFF_FindResult_params, a); _ZNSt6vectorIN8Pistache4Rest10TypedParamESaIS2_EEC2EOS4_(ret + OFF_FindResult_splats, b); }
void _ZSt10make_tupleIJRKSt10shared_ptrIN8Pistache4Rest5RouteEESt6vectorINS2_10TypedParamESaIS8_EESA_EESt5tupleIJDpNSt25__strip_reference_wrapperINSt5decayIT_E4typeEE6__typeEEEDpOSE_(u8* ret, u8* r, u8* a, u8* b) { mk_result(ret, *(u8**)r, a, b); }

/* ------------------------------------------------------------------ induction hypothesis: the recursive call on child k */
static u8 ch_found[NCH]; static u8 ch_np[NCH], ch_ns[NCH]; static u16 ch_pitem[NCH], ch_sitem[NCH];   /* oracle */
static u8* exp_lower_p; static u64 exp_lower_len; static u64 seg_len; static int path_empty;
static int ncalls;
void vp_rec_findRoute(u8* ret, u8* self, u8* path, u8* params, u8* splats) {
  int k = -1; for (int i = 0; i < NCH; i++) if (self == child[i]) k = i;
  __CPROVER_assert(k >= 0, "findRoute recurses only into children of the node");
  ncalls++;
  sv_t* p = (sv_t*)path;
  if (path_empty) __CPROVER_assert(k == 4 && p->len == 0, "with the path exhausted only the (absent) trailing optional is consulted, with the empty path");
  else __CPROVER_assert(p->len == exp_lower_len && (p->len == 0 || p->p == exp_lower_p), "a child is asked about exactly the lower path (the text after the first '/')");
  if (k < 0) { __CPROVER_assume(0); }
  if (ch_found[k]) {
    if (ch_np[k]) gv_push(GV(params), ch_pitem[k]);
    if (ch_ns[k]) gv_push(GV(splats), ch_sitem[k]);
    mk_result(ret, routes[k], params, splats);
  } else {
    static gvec_t e1, e2; e1.n = 0; e1.w = 0; e1.w2 = 0; e2.n = 0; e2.w = 0; e2.w2 = 0;
    mk_result(ret, 0, (u8*)&e1, (u8*)&e2);
  } }

int main(void) {
  __ir_init_globals();
  /* keys and names: symbolic bytes (no '/'); fixed keys are distinct */
  for (int i = 0; i < 32; i++) { VP_SET(u8, arena[i], "key"); __CPROVER_assume(arena[i] != '/'); }
  u32 nf, np, no, hs, hr; VP_SET(u32, nf, "nf"); VP_SET(u32, np, "np"); VP_SET(u32, no, "no"); VP_SET(u32, hs, "hs"); VP_SET(u32, hr, "hr");
  __CPROVER_assume(nf <= 2 && np <= NPAR && no <= 1 && hs <= 1 && hr <= 1);
  u64 kl[5]; for (int i = 0; i < 5; i++) { VP_SET(u64, kl[i], "klen"); __CPROVER_assume(kl[i] >= 1 && kl[i] <= KMAX); }
  GM_(node + OFF_Node_fixed)->n = nf; GM_(node + OFF_Node_fixed)->e = ent_fixed;
  GM_(node + OFF_Node_param)->n = np; GM_(node + OFF_Node_param)->e = ent_param;
  GM_(node + OFF_Node_optional)->n = no; GM_(node + OFF_Node_optional)->e = ent_opt;
  for (int k = 0; k < 2; k++) { ent_fixed[k].key.p = arena + 4 * k; ent_fixed[k].key.len = kl[k]; ent_fixed[k].node = child[k]; ent_fixed[k].ctrl = 0; }
  for (int k = 0; k < 2; k++) { ent_param[k].key.p = arena + 8 + 4 * k; ent_param[k].key.len = kl[2 + k]; ent_param[k].node = child[2 + k]; ent_param[k].ctrl = 0; }
  ent_opt[0].key.p = arena + 16; ent_opt[0].key.len = kl[4]; ent_opt[0].node = child[4]; ent_opt[0].ctrl = 0;
  if (nf == 2) __CPROVER_assume(!sv_eq(&ent_fixed[0].key, &ent_fixed[1].key));
  *(u8**)(node + OFF_Node_splat) = hs ? (u8*)child[5] : (u8*)0;
  *(u8**)(node + OFF_Node_route) = hr ? (u8*)routes[NCH] : (u8*)0;
  /* path: empty, or a segment of 1..KMAX bytes (no '/'), optionally followed by '/' and a lower path of 0..3 arbitrary bytes */
  u32 pe, hl; VP_SET(u32, pe, "path_empty"); VP_SET(u32, hl, "has_lower"); __CPROVER_assume(pe <= 1 && hl <= 1);
  u64 ll; VP_SET(u64, seg_len, "seg_len"); VP_SET(u64, ll, "lower_len"); __CPROVER_assume(seg_len >= 1 && seg_len <= KMAX && ll <= 3);
  for (int i = 0; i < PMAX; i++) { VP_SET(u8, PATH[i], "path"); }
  for (int i = 0; i < KMAX; i++) if (i < (int)seg_len) __CPROVER_assume(PATH[i] != '/');
  u64 plen; path_empty = (int)pe;
  if (pe) plen = 0;
  else if (!hl) { plen = seg_len; exp_lower_len = 0; exp_lower_p = 0; }
  else { __CPROVER_assume(PATH[seg_len] == '/'); plen = seg_len + 1 + ll; exp_lower_len = ll; exp_lower_p = PATH + seg_len + 1; }
  /* oracle for the children and earlier bindings */
  for (int k = 0; k < NCH; k++) { VP_SET(u8, ch_found[k], "found"); VP_SET(u8, ch_np[k], "cnp"); VP_SET(u8, ch_ns[k], "cns"); VP_SET(u16, ch_pitem[k], "cpitem"); VP_SET(u16, ch_sitem[k], "csitem");
    __CPROVER_assume(ch_found[k] <= 1 && ch_np[k] <= 1 && ch_ns[k] <= 1); }
  static gvec_t params, splats; u64 p0n, s0n; u64 p0w, s0w;
  VP_SET(u64, p0n, "p0n"); VP_SET(u64, s0n, "s0n"); VP_SET(u64, p0w, "p0w"); VP_SET(u64, s0w, "s0w"); __CPROVER_assume(p0n <= 2 && s0n <= 2);
  p0w &= p0n == 0 ? 0 : p0n == 1 ? 0xffff : 0xffffffff; s0w &= s0n == 0 ? 0 : s0n == 1 ? 0xffff : 0xffffffff;
  params.n = p0n; params.w = p0w; params.w2 = 0; splats.n = s0n; splats.w = s0w; splats.w2 = 0;
  /* run one level of the real matcher */
  static u8 result[SIZEOF_FindResult] __attribute__((aligned(8)));
  sv_t path = { plen, PATH };
  _ZNK8Pistache4Rest15SegmentTreeNode9findRouteERKSt17basic_string_viewIcSt11char_traitsIcEERSt6vectorINS0_10TypedParamESaIS9_EESC_(result, node, (u8*)&path, (u8*)&params, (u8*)&splats);
  __CPROVER_assert(!vp_take_exception(), "findRoute does not throw");
  u8* got = *(u8**)(result + OFF_FindResult_route);
  gvec_t* gp = GV(result + OFF_FindResult_params); gvec_t* gs = GV(result + OFF_FindResult_splats);
  /* reference for this level */
  u8* want = 0; gvec_t wp = { p0n, p0w, 0 }, ws = { s0n, s0w, 0 }; int done = 0;
#define TAKE(k, pushp, pushs) do { if (!done && ch_found[k]) { done = 1; want = routes[k]; pushp; pushs; if (ch_np[k]) gv_push(&wp, ch_pitem[k]); if (ch_ns[k]) gv_push(&ws, ch_sitem[k]); } } while (0)
  if (pe) {
#ifndef IMPL_OPTIONAL_SHADOWS_ROUTE
    if (hr) { done = 1; want = routes[NCH]; }
#endif
    if (!done && no) { TAKE(4, (void)0, (void)0); done = 1; }
    if (!done && hr) { done = 1; want = routes[NCH]; }
  } else {
    sv_t seg = { seg_len, PATH };
    for (int k = 0; k < 2; k++) if (k < (int)nf && sv_eq(&ent_fixed[k].key, &seg)) TAKE(k, (void)0, (void)0);
    for (int k = 0; k < 2; k++) if (k < (int)np) TAKE(2 + k, gv_push(&wp, pack(ent_param[k].key.p, ent_param[k].key.len, PATH, seg_len)), (void)0);
    if (no) TAKE(4, gv_push(&wp, pack(ent_opt[0].key.p, ent_opt[0].key.len, PATH, seg_len)), (void)0);
    if (hs) TAKE(5, (void)0, gv_push(&ws, pack(PATH, seg_len, PATH, seg_len)));
  }
  VP_OBS("found", want != 0);
  __CPROVER_assert((got != 0) == (want != 0), "a route is found iff the table prescribes one for this path");
  if (want && got) {
    __CPROVER_assert(got == want, "the route found is the matching route of highest precedence (fixed > parameter > optional > wildcard, with backtracking)");
    __CPROVER_assert(gp->n == wp.n && gp->w == wp.w && gp->w2 == wp.w2, "parameters: earlier bindings, then this level's parameter bound to exactly the current segment, then the child's; abandoned branches dropped");
    __CPROVER_assert(gs->n == ws.n && gs->w == ws.w && gs->w2 == ws.w2, "wildcards: earlier bindings, then this level's wildcard bound to exactly the current segment, then the child's");
  }
  if (!want && !got) {
    __CPROVER_assert(params.n == p0n && params.w == p0w && params.w2 == 0 && splats.n == s0n && splats.w == s0w && splats.w2 == 0, "when nothing matches, the bindings passed in are left as they were (every tentative binding was removed)");
    __CPROVER_assert(gp->n == 0 && gs->n == 0, "a failed lookup returns no bindings");
  }
  VP_END("witness: end of harness reached");
  return 0;
}
