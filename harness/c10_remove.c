/* C10(b'): SegmentTreeNode::removeRoute with the real getSegmentType (src/server/router.cc, sel mode) -- ONE INDUCTIVE STEP.
 * A node with 0..1 fixed / parameter / optional child (symbolic keys), a wildcard child or not, a route or not; the pattern is empty
 * or starts with a symbolic segment of 1..3 bytes with or without a lower pattern.  The recursive call on the child is a stub that
 * records the lower pattern and answers an arbitrary "the child is now empty" flag (induction hypothesis).
 * Asserted: the child addressed is the one of the segment's kind and key; it is asked about exactly the lower pattern; it is
 * dropped from this node iff it reported itself empty; a missing child is refused with runtime_error; nothing else of this node
 * changes (removing one route never removes a sibling); an exhausted pattern clears this node's own route; the value returned is
 * "this node is now empty" (no child of any kind, no route) -- which is what lets the parent drop it.                             */
#include "vp.h"
#include "libc.h"
#include "ghost.h"
#include "offsets.h"
#define KMAX 3
u8 _ZN8Pistache4Rest15SegmentTreeNode11removeRouteERKSt17basic_string_viewIcSt11char_traitsIcEE(u8*, u8*);
#include "c10_models.h"
u8* _ZNKSt17basic_string_viewIcSt11char_traitsIcEEixEm(u8* s, u64 i) { __CPROVER_assert(i < ((sv_t*)s)->len, "string_view::operator[] inside the view"); return ((sv_t*)s)->p + i; }
static u8 node[SIZEOF_Node] __attribute__((aligned(8)));
static entry_t ent[3][1]; static u8 child[3][8], splat_child[8], route_obj[8];
u8* _ZNSt13unordered_mapISt17basic_string_viewIcSt11char_traitsIcEESt10shared_ptrIN8Pistache4Rest15SegmentTreeNodeEESt4hashIS3_ESt8equal_toIS3_ESaISt4pairIKS3_S8_EEE2atERSE_(u8* m, u8* k) {
  for (u64 i = 0; i < 1; i++) if (i < GM_(m)->n && sv_eq(&GM_(m)->e[i].key, (sv_t*)k)) return (u8*)&GM_(m)->e[i].node;
  vp_throw_std(_ZTISt12out_of_range); return 0; }
static int n_erase[3];
u64 _ZNSt13unordered_mapISt17basic_string_viewIcSt11char_traitsIcEESt10shared_ptrIN8Pistache4Rest15SegmentTreeNodeEESt4hashIS3_ESt8equal_toIS3_ESaISt4pairIKS3_S8_EEE5eraseERSE_(u8* m, u8* k) {
  int c = m == node + OFF_Node_fixed ? 0 : m == node + OFF_Node_param ? 1 : 2;
  if (GM_(m)->n == 1 && sv_eq(&GM_(m)->e[0].key, (sv_t*)k)) { GM_(m)->n = 0; n_erase[c]++; return 1; } return 0; }
void _ZNSt12__shared_ptrIN8Pistache4Rest5RouteELN9__gnu_cxx12_Lock_policyE2EE5resetEv(u8* sp) { *(u8**)sp = 0; }
void _ZNSt12__shared_ptrIN8Pistache4Rest15SegmentTreeNodeELN9__gnu_cxx12_Lock_policyE2EE5resetEv(u8* sp) { *(u8**)sp = 0; }
u8* _ZNSt10shared_ptrIN8Pistache4Rest15SegmentTreeNodeEEaSEDn(u8* sp, u8* n) { (void)n; *(u8**)sp = 0; return sp; }
static int n_rec; static u8* rec_self; static u8* rec_path_p; static u64 rec_path_len; static u8 child_empty;
u8 vp_rec_removeRoute(u8* self, u8* path) { n_rec++; rec_self = self; rec_path_p = ((sv_t*)path)->p; rec_path_len = ((sv_t*)path)->len; return child_empty; }
int main(void) {
  __ir_init_globals();
  for (int i = 0; i < 32; i++) { VP_SET(u8, arena[i], "key"); __CPROVER_assume(arena[i] != '/'); }
  u64 n0[3]; u32 hs, hr;
  for (int c = 0; c < 3; c++) { VP_SET(u64, n0[c], "nchild"); __CPROVER_assume(n0[c] <= 1); u64 kl; VP_SET(u64, kl, "klen"); __CPROVER_assume(kl >= 1 && kl <= 2);
    u8* m = node + (c == 0 ? OFF_Node_fixed : c == 1 ? OFF_Node_param : OFF_Node_optional); GM_(m)->n = n0[c]; GM_(m)->e = ent[c];
    ent[c][0].key.p = arena + 4 * c; ent[c][0].key.len = kl; ent[c][0].node = child[c]; ent[c][0].ctrl = 0; }
  VP_SET(u32, hs, "has_splat"); VP_SET(u32, hr, "has_route"); VP_SET(u8, child_empty, "child_now_empty"); __CPROVER_assume(hs <= 1 && hr <= 1 && child_empty <= 1);
  *(u8**)(node + OFF_Node_splat) = hs ? (u8*)splat_child : (u8*)0; *(u8**)(node + OFF_Node_route) = hr ? (u8*)route_obj : (u8*)0;
  u32 pe, hl; u64 sl, ll; VP_SET(u32, pe, "pattern_empty"); VP_SET(u32, hl, "has_lower"); VP_SET(u64, sl, "seg_len"); VP_SET(u64, ll, "lower_len");
  __CPROVER_assume(pe <= 1 && hl <= 1 && sl >= 1 && sl <= KMAX && ll <= 2);
  for (int i = 0; i < 8; i++) { VP_SET(u8, PATH[i], "pattern"); } for (u64 i = 0; i < KMAX; i++) if (i < sl) __CPROVER_assume(PATH[i] != '/');
  u64 plen = pe ? 0 : sl + (hl ? 1 + ll : 0); if (!pe && hl) __CPROVER_assume(PATH[sl] == '/');
  sv_t pattern = { plen, PATH };
  u8 ret = _ZN8Pistache4Rest15SegmentTreeNode11removeRouteERKSt17basic_string_viewIcSt11char_traitsIcEE(node, (u8*)&pattern);
  int thr = vp_take_exception();
  if (thr) __CPROVER_assert(vp_exc_is(_ZTISt13runtime_error), "a refused removal raises std::runtime_error");
  u64 n1[3]; for (int c = 0; c < 3; c++) n1[c] = GM_(node + (c == 0 ? OFF_Node_fixed : c == 1 ? OFF_Node_param : OFF_Node_optional))->n;
  u8* splat1 = *(u8**)(node + OFF_Node_splat); u8* route1 = *(u8**)(node + OFF_Node_route);
  if (pe) {
    __CPROVER_assert(!thr && route1 == 0 && n_rec == 0, "an exhausted pattern clears this node's own route and asks no child");
    __CPROVER_assert(n1[0] == n0[0] && n1[1] == n0[1] && n1[2] == n0[2] && splat1 == (hs ? (u8*)splat_child : (u8*)0), "an exhausted pattern removes no child");
  } else {
    int qm = -1; for (u64 i = 0; i < KMAX; i++) if (i < sl && PATH[i] == '?' && qm < 0) qm = (int)i;
    int kind; if (PATH[0] == ':') kind = qm < 0 ? 1 : (qm == (int)sl - 1 ? 2 : -1); else if (PATH[0] == '*') kind = sl == 1 ? 3 : -1; else kind = qm < 0 ? 0 : -1;
    if (kind < 0) __CPROVER_assert(thr && n_rec == 0, "a malformed segment is refused");
    if (kind >= 0 && kind <= 2) {
      sv_t key = { kind == 2 ? sl - 1 : sl, PATH }; int exists = n0[kind] == 1 && sv_eq(&ent[kind][0].key, &key);
      __CPROVER_assert((thr != 0) == !exists, "removal below a child that does not exist is refused; below an existing child it is not");
      if (exists && !thr) {
        __CPROVER_assert(n_rec == 1 && rec_self == child[kind], "the child of the segment's kind and key is the one asked");
        __CPROVER_assert(hl ? (rec_path_len == ll && (ll == 0 || rec_path_p == PATH + sl + 1)) : rec_path_len == 0, "the child is asked about exactly the lower pattern");
        __CPROVER_assert(n1[kind] == (child_empty ? 0 : 1), "the child is dropped iff it reported itself empty");
      }
      for (int c = 0; c < 3; c++) if (c != kind || !exists) __CPROVER_assert(n1[c] == n0[c], "no other child of this node is removed");
      __CPROVER_assert(splat1 == (hs ? (u8*)splat_child : (u8*)0) && route1 == (hr ? (u8*)route_obj : (u8*)0), "the wildcard child and the node's own route are untouched by a keyed removal");
    }
    if (kind == 3) {
      __CPROVER_assert((thr != 0) == !hs, "removal below a wildcard child that does not exist is refused");
      if (hs && !thr) {
        __CPROVER_assert(n_rec == 1 && rec_self == splat_child, "the wildcard child is the one asked");
        __CPROVER_assert(splat1 == (child_empty ? (u8*)0 : (u8*)splat_child), "the wildcard child is dropped iff it reported itself empty");
      }
      __CPROVER_assert(n1[0] == n0[0] && n1[1] == n0[1] && n1[2] == n0[2] && route1 == (hr ? (u8*)route_obj : (u8*)0), "removing a wildcard route removes no sibling and not this node's route");
    }
  }
  if (!thr) __CPROVER_assert((ret != 0) == (n1[0] == 0 && n1[1] == 0 && n1[2] == 0 && splat1 == 0 && route1 == 0), "the value returned says whether THIS node is now empty (no child of any kind, no route)");
  VP_END("witness: end of harness reached");
  return 0;
}
