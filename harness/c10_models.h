/* Ghost models shared by the routing harnesses (c10_route.c, c10_router.c): string_view, unordered_map<string_view, shared_ptr<Node>>,
 * shared_ptr, vector<TypedParam> (packed items), the findRoute result tuple.  See c10_route.c for the conventions. */
#ifndef C10_MODELS_H
#define C10_MODELS_H
/* ------------------------------------------------------------------ byte arena: keys at [0,32), path at [32,64) */
static u8 arena[64];
#define PATH (arena + 32)
typedef struct { u64 len; u8* p; } sv_t;
typedef struct { sv_t key; u8* node; u8* ctrl; } entry_t;
_Static_assert(sizeof(entry_t) == SIZEOF_NodeMapEntry && offsetof(entry_t, node) == OFF_NodeMapEntry_second && sizeof(sv_t) == SIZEOF_StringView, "map entry layout");
typedef struct { u64 n; entry_t* e; } gmapn_t;
typedef struct { u64 n; u64 w; u64 w2; } gvec_t;   /* items 0..3 in w, 4..7 in w2 */
#define GM_(m) ((gmapn_t*)(m))
#define GV(v) ((gvec_t*)(v))
/* ------------------------------------------------------------------ string_view */
u8 _ZNKSt17basic_string_viewIcSt11char_traitsIcEE5emptyEv(u8* s) { return ((sv_t*)s)->len == 0; }
u8* _ZNKSt17basic_string_viewIcSt11char_traitsIcEE4dataEv(u8* s) { return ((sv_t*)s)->p; }
u64 _ZNKSt17basic_string_viewIcSt11char_traitsIcEE6lengthEv(u8* s) { return ((sv_t*)s)->len; }
void _ZNSt17basic_string_viewIcSt11char_traitsIcEEC2EPKcm(u8* s, u8* p, u64 n) { ((sv_t*)s)->p = p; ((sv_t*)s)->len = n; }
#define PMAX 8
u64 _ZNKSt17basic_string_viewIcSt11char_traitsIcEE4findEcm(u8* s, u8 c, u64 pos) { sv_t* v = (sv_t*)s; u64 g = ~(u64)0; for (u64 i = PMAX; i > 0; i--) { u64 j = i - 1; if (j >= pos && j < v->len && v->p[j] == c) g = j; } return g; }
agg16_8 _ZNKSt17basic_string_viewIcSt11char_traitsIcEE6substrEmm(u8* s, u64 pos, u64 n) {
  sv_t* v = (sv_t*)s; agg16_8 r; sv_t* o = (sv_t*)&r;
  if (pos > v->len) { _ZSt24__throw_out_of_range_fmtPKcz(0); o->len = 0; o->p = 0; return r; }
  u64 rem = v->len - pos; o->p = v->p + pos; o->len = n < rem ? n : rem; return r; }
static int sv_eq(sv_t* a, sv_t* b) { if (a->len != b->len) return 0; for (u64 i = 0; i < KMAX; i++) if (i < a->len && a->p[i] != b->p[i]) return 0; return 1; }
/* ------------------------------------------------------------------ unordered_map<string_view, shared_ptr<Node>> */
u64 _ZNKSt13unordered_mapISt17basic_string_viewIcSt11char_traitsIcEESt10shared_ptrIN8Pistache4Rest15SegmentTreeNodeEESt4hashIS3_ESt8equal_toIS3_ESaISt4pairIKS3_S8_EEE5countERSE_(u8* m, u8* k) {
  for (u64 i = 0; i < 2; i++) if (i < GM_(m)->n && sv_eq(&GM_(m)->e[i].key, (sv_t*)k)) return 1; return 0; }
u8* _ZNKSt13unordered_mapISt17basic_string_viewIcSt11char_traitsIcEESt10shared_ptrIN8Pistache4Rest15SegmentTreeNodeEESt4hashIS3_ESt8equal_toIS3_ESaISt4pairIKS3_S8_EEE2atERSE_(u8* m, u8* k) {
  for (u64 i = 0; i < 2; i++) if (i < GM_(m)->n && sv_eq(&GM_(m)->e[i].key, (sv_t*)k)) return (u8*)&GM_(m)->e[i].node;
  vp_throw_std(_ZTISt12out_of_range); return 0; }
u8* _ZNKSt13unordered_mapISt17basic_string_viewIcSt11char_traitsIcEESt10shared_ptrIN8Pistache4Rest15SegmentTreeNodeEESt4hashIS3_ESt8equal_toIS3_ESaISt4pairIKS3_S8_EEE5beginEv(u8* m) { return (u8*)&GM_(m)->e[0]; }
u8* _ZNKSt13unordered_mapISt17basic_string_viewIcSt11char_traitsIcEESt10shared_ptrIN8Pistache4Rest15SegmentTreeNodeEESt4hashIS3_ESt8equal_toIS3_ESaISt4pairIKS3_S8_EEE3endEv(u8* m) { return (u8*)&GM_(m)->e[GM_(m)->n]; }
u8 _ZNKSt13unordered_mapISt17basic_string_viewIcSt11char_traitsIcEESt10shared_ptrIN8Pistache4Rest15SegmentTreeNodeEESt4hashIS3_ESt8equal_toIS3_ESaISt4pairIKS3_S8_EEE5emptyEv(u8* m) { return GM_(m)->n == 0; }
u8 _ZNSt8__detailneERKNS_19_Node_iterator_baseISt4pairIKSt17basic_string_viewIcSt11char_traitsIcEESt10shared_ptrIN8Pistache4Rest15SegmentTreeNodeEEELb1EEESF_(u8* a, u8* b) { return *(u8**)a != *(u8**)b; }
u8* _ZNKSt8__detail20_Node_const_iteratorISt4pairIKSt17basic_string_viewIcSt11char_traitsIcEESt10shared_ptrIN8Pistache4Rest15SegmentTreeNodeEEELb0ELb1EEdeEv(u8* it) { return *(u8**)it; }
u8* _ZNKSt8__detail20_Node_const_iteratorISt4pairIKSt17basic_string_viewIcSt11char_traitsIcEESt10shared_ptrIN8Pistache4Rest15SegmentTreeNodeEEELb0ELb1EEptEv(u8* it) { return *(u8**)it; }
u8* _ZNSt8__detail20_Node_const_iteratorISt4pairIKSt17basic_string_viewIcSt11char_traitsIcEESt10shared_ptrIN8Pistache4Rest15SegmentTreeNodeEEELb0ELb1EEppEv(u8* it) { *(u8**)it += sizeof(entry_t); return it; }
/* ------------------------------------------------------------------ shared_ptr */
u8* _ZNKSt19__shared_ptr_accessIN8Pistache4Rest15SegmentTreeNodeELN9__gnu_cxx12_Lock_policyE2ELb0ELb0EEptEv(u8* sp) { return *(u8**)sp; }
u8 _ZStneIN8Pistache4Rest15SegmentTreeNodeEEbRKSt10shared_ptrIT_EDn(u8* sp, u8* n) { (void)n; return *(u8**)sp != 0; }
u8 _ZSteqIN8Pistache4Rest15SegmentTreeNodeEEbRKSt10shared_ptrIT_EDn(u8* sp, u8* n) { (void)n; return *(u8**)sp == 0; }
void _ZNSt10shared_ptrIN8Pistache4Rest5RouteEEC2ERKS3_(u8* d, u8* s) { *(u8**)d = *(u8**)s; *(u8**)(d + 8) = 0; }
void _ZNSt10shared_ptrIN8Pistache4Rest5RouteEEC2EDn(u8* d, u8* n) { (void)n; *(u8**)d = 0; *(u8**)(d + 8) = 0; }
u8* _ZNSt10shared_ptrIN8Pistache4Rest5RouteEEaSEOS3_(u8* d, u8* s) { *(u8**)d = *(u8**)s; *(u8**)s = 0; return d; }
u8* _ZNSt10shared_ptrIN8Pistache4Rest5RouteEEaSERKS3_(u8* d, u8* s) { *(u8**)d = *(u8**)s; return d; }
u8 _ZStneIN8Pistache4Rest5RouteEEbRKSt10shared_ptrIT_EDn(u8* sp, u8* n) { (void)n; return *(u8**)sp != 0; }
u8 _ZSteqIN8Pistache4Rest5RouteEEbRKSt10shared_ptrIT_EDn(u8* sp, u8* n) { (void)n; return *(u8**)sp == 0; }
void _ZNSt12__shared_ptrIN8Pistache4Rest5RouteELN9__gnu_cxx12_Lock_policyE2EED2Ev(u8* sp) { (void)sp; }
/* ------------------------------------------------------------------ vector<TypedParam>: packed items (16 bits each, <= 4) */
static u64 pack(u8* np, u64 nl, u8* vp, u64 vl) {
  __CPROVER_assert(nl <= 3 && vl <= 3, "ghost vector item: name/value of at most 3 bytes (harness bound)");
  u64 no = nl ? (u64)(np - arena) : 0, vo = vl ? (u64)(vp - arena) : 0;
  __CPROVER_assert(no < 64 && vo < 64, "ghost vector item: name/value bytes lie in the harness arena (keys or path)");
  return (no & 63) | ((nl & 3) << 6) | ((vo & 63) << 8) | ((vl & 3) << 14); }
static void gv_push(gvec_t* v, u64 it) { __CPROVER_assert(v->n < 8, "ghost vector capacity (8 bindings: harness bound)"); if (v->n < 4) v->w |= (it & 0xffff) << (16 * v->n); else v->w2 |= (it & 0xffff) << (16 * (v->n - 4)); v->n++; }
static void gv_pop(gvec_t* v) { __CPROVER_assert(v->n > 0, "pop_back on a non-empty vector"); v->n--; if (v->n < 4) v->w &= ~((u64)0xffff << (16 * v->n)); else v->w2 &= ~((u64)0xffff << (16 * (v->n - 4))); }
void _ZNSt6vectorIN8Pistache4Rest10TypedParamESaIS2_EEC2Ev(u8* v) { GV(v)->n = 0; GV(v)->w = 0; GV(v)->w2 = 0; }
void _ZNSt6vectorIN8Pistache4Rest10TypedParamESaIS2_EED2Ev(u8* v) { (void)v; }
void _ZNSt6vectorIN8Pistache4Rest10TypedParamESaIS2_EEC2EOS4_(u8* d, u8* s) { GV(d)->n = GV(s)->n; GV(d)->w = GV(s)->w; GV(d)->w2 = GV(s)->w2; GV(s)->n = 0; GV(s)->w = 0; GV(s)->w2 = 0; }
u8* _ZNSt6vectorIN8Pistache4Rest10TypedParamESaIS2_EEaSEOS4_(u8* d, u8* s) { GV(d)->n = GV(s)->n; GV(d)->w = GV(s)->w; GV(d)->w2 = GV(s)->w2; GV(s)->n = 0; GV(s)->w = 0; GV(s)->w2 = 0; return d; }
static u8 tp_dummy[SIZEOF_TypedParam];
u8* _ZNSt6vectorIN8Pistache4Rest10TypedParamESaIS2_EE12emplace_backIJRNSt7__cxx1112basic_stringIcSt11char_traitsIcESaIcEEESC_EEERS2_DpOT_(u8* v, u8* name, u8* val) {
  gv_push(GV(v), pack(GS(name)->p, GS(name)->len, GS(val)->p, GS(val)->len)); return tp_dummy; }
void _ZNSt6vectorIN8Pistache4Rest10TypedParamESaIS2_EE8pop_backEv(u8* v) { gv_pop(GV(v)); }
/* ------------------------------------------------------------------ tuple<shared_ptr<Route>, vector, vector> (sret) */
static void mk_result(u8* ret, u8* route, u8* a, u8* b) {
  *(u8**)(ret + OFF_FindResult_route) = route; *(u8**)(ret + OFF_FindResult_route + 8) = 0;
  _ZNSt6vectorIN8Pistache4Rest10TypedParamESaIS2_EEC2EOS4_(ret + OFF_FindResult_params, a); _ZNSt6vectorIN8Pistache4Rest10TypedParamESaIS2_EEC2EOS4_(ret + OFF_FindResult_splats, b); }
void _ZSt10make_tupleIJDnSt6vectorIN8Pistache4Rest10TypedParamESaIS3_EES5_EESt5tupleIJDpNSt25__strip_reference_wrapperINSt5decayIT_E4typeEE6__typeEEEDpOS9_(u8* ret, u8* n, u8* a, u8* b) {
  /* tuple<nullptr_t, vector, vector>: 56 bytes, the first element is a bare nullptr_t (no control-block word) */
  (void)n; *(u8**)(ret + OFF_FindResult_route) = 0;
  _ZNSt6vectorIN8Pistache4Rest10TypedParamESaIS2_EEC2EOS4_(ret + OFF_FindResult_params, a); _ZNSt6vectorIN8Pistache4Rest10TypedParamESaIS2_EEC2EOS4_(ret + OFF_FindResult_splats, b); }
void _ZSt10make_tupleIJRKSt10shared_ptrIN8Pistache4Rest5RouteEESt6vectorINS2_10TypedParamESaIS8_EESA_EESt5tupleIJDpNSt25__strip_reference_wrapperINSt5decayIT_E4typeEE6__typeEEEDpOSE_(u8* ret, u8* r, u8* a, u8* b) { mk_result(ret, *(u8**)r, a, b); }

#endif
