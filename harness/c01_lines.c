/* Line steps of src/common/http.cc in sel mode (std::string/unordered_map operations are ghost-model calls, cursor
 * primitives are the contract stubs proven by the cursor kernels).  Lemma L2 of C01 by two-run self-composition:
 *   run A executes the real step on an exact-size block holding the first K bytes of the symbolic line bytes b[0..NN),
 *   run B executes it on all NN bytes; each with a fresh message object.  Asserted:
 *    (i)   A == Again  =>  A's cursor is back at its entry position (Revert) and A's effects are a prefix of B's;
 *    (ii)  A == Next (consumed c)  =>  B == Next, consumed c, same effects and same parsed fields;
 *    (iii) A raises code e  =>  B raises the same code.
 *   C03 for the same steps comes for free: every read (cursor stubs, std::string construction, strncmp/strtol models)
 *   must lie inside the exact-size block of the run, in both runs.                                               */
#include "vp.h"
#include "libc.h"
#include "ghost.h"
#include "cursor_contract.h"
#include "offsets.h"
#ifndef NN
#define NN 8
#endif
#ifndef K
#define K 4
#endif
#define MAXQ 4
u32 _ZN8Pistache4Http7Private15RequestLineStep5applyERNS_12StreamCursorE(u8*, u8*);
u32 _ZN8Pistache4Http7Private16ResponseLineStep5applyERNS_12StreamCursorE(u8*, u8*);

typedef struct { u8 pad0[OFF_Message_code]; u32 code; u8 pad1[OFF_Request_method - OFF_Message_code - 4]; u32 method; u8 pad2[OFF_Request_resource - OFF_Request_method - 4]; gstr_t resource; u8 rest[SIZEOF_Request - OFF_Request_resource - sizeof(gstr_t)]; } req_t;
_Static_assert(offsetof(req_t, method) == OFF_Request_method && offsetof(req_t, resource) == OFF_Request_resource && offsetof(req_t, code) == OFF_Message_code, "Request layout");
typedef struct { void* vptr; u8* message; } step_t;

static int run; static u8* base[2];
typedef struct { u64 ko, kl, vo, vl; } qeff_t;
static qeff_t q[2][MAXQ]; static int nq[2];
u32 vp_http_code;
u8 _ZTIN8Pistache4Http9HttpErrorE[24] __attribute__((aligned(8)));
/* stub: Step::raise(msg, code) == throw HttpError(code, msg) */
void _ZN8Pistache4Http7Private4Step5raiseEPKcNS0_4CodeE(u8* msg, u32 code) {
  (void)msg; vp_http_code = code; u8* o = (u8*)malloc(16); __CPROVER_assume(o != 0); VP_EXC_SETVT(o);
  __ir_exc_obj = o; __ir_exc_type = _ZTIN8Pistache4Http9HttpErrorE; __ir_exc_pending = 1; }
/* recording stub: Uri::Query::add(std::string name, std::string value) -- effect log relative to the run's buffer */
void _ZN8Pistache4Http3Uri5Query3addENSt7__cxx1112basic_stringIcSt11char_traitsIcESaIcEEES8_(u8* self, u8* k, u8* v) {
  (void)self; int r = run;
  if (nq[r] < MAXQ) { q[r][nq[r]].ko = (u64)GS(k)->p - (u64)base[r]; q[r][nq[r]].kl = GS(k)->len; q[r][nq[r]].vl = GS(v)->len; q[r][nq[r]].vo = GS(v)->len ? (u64)GS(v)->p - (u64)base[r] : 0; }
  nq[r]++; }
/* ghost: const unordered_map<string, Method> httpMethods -- the table is expanded from HTTP_METHODS by the offsets generator */
static const char* const MET[] = { VP_METHOD_NAMES };
#define NMET (sizeof MET / sizeof MET[0])
typedef struct { gstr_t first; u32 second; } mpair_t;
static mpair_t mnode[NMET];
u8* _ZNKSt13unordered_mapINSt7__cxx1112basic_stringIcSt11char_traitsIcESaIcEEEN8Pistache4Http6MethodESt4hashIS5_ESt8equal_toIS5_ESaISt4pairIKS5_S8_EEE4findERSE_(u8* tbl, u8* key) {
  (void)tbl; for (u64 i = 0; i < NMET; i++) if (gs_eq_lit(key, MET[i])) { mnode[i].second = (u32)i; return (u8*)&mnode[i]; } return 0; }
u8* _ZNKSt13unordered_mapINSt7__cxx1112basic_stringIcSt11char_traitsIcESaIcEEEN8Pistache4Http6MethodESt4hashIS5_ESt8equal_toIS5_ESaISt4pairIKS5_S8_EEE3endEv(u8* t) { (void)t; return 0; }
u8 _ZNSt8__detailneERKNS_19_Node_iterator_baseISt4pairIKNSt7__cxx1112basic_stringIcSt11char_traitsIcESaIcEEEN8Pistache4Http6MethodEELb1EEESF_(u8* a, u8* b) { return *(u8**)a != *(u8**)b; }
u8* _ZNKSt8__detail20_Node_const_iteratorISt4pairIKNSt7__cxx1112basic_stringIcSt11char_traitsIcESaIcEEEN8Pistache4Http6MethodEELb0ELb1EEptEv(u8* it) { return *(u8**)it; }

typedef struct { u32 state; int thrown; u32 code; u64 consumed; u32 method; u64 res_off, res_len; u32 version; u32 rcode; } out_t;
static req_t reqs[2];
static void do_run(int r, u8* b, u64 len, out_t* o) {
  run = r; nq[r] = 0;
  u8* d = (u8*)malloc(len); __CPROVER_assume(d != 0);
  for (u64 j = 0; j < NN; j++) if (j < len) d[j] = b[j];
  base[r] = d;
  sb_t sb; vp_sb_init(&sb, d, 0, len); cursor_t c = { &sb };
  step_t st = { 0, (u8*)&reqs[r] };
  reqs[r].resource.p = (u8*)""; reqs[r].resource.len = 0; reqs[r].method = 0xffff; reqs[r].code = 0xffff; *(u32*)&reqs[r] = 0xffff;
#ifdef H_RESP
  o->state = _ZN8Pistache4Http7Private16ResponseLineStep5applyERNS_12StreamCursorE((u8*)&st, (u8*)&c);
#else
  o->state = _ZN8Pistache4Http7Private15RequestLineStep5applyERNS_12StreamCursorE((u8*)&st, (u8*)&c);
#endif
  o->thrown = vp_take_exception(); o->code = o->thrown ? (vp_exc_is(_ZTIN8Pistache4Http9HttpErrorE) ? vp_http_code : 500) : 0;
  __CPROVER_assert(sb.eback == d && sb.egptr == d + len && (u64)sb.gptr >= (u64)d && (u64)sb.gptr <= (u64)d + len, "cursor stays inside the delivered bytes");
  o->consumed = (u64)sb.gptr - (u64)d;
  o->method = reqs[r].method; o->res_len = reqs[r].resource.len; o->res_off = reqs[r].resource.len ? (u64)reqs[r].resource.p - (u64)d : 0;
  o->version = *(u32*)&reqs[r]; o->rcode = reqs[r].code;
}

int main(void) {
  __ir_init_globals();
  __ir_ti_si(_ZTIN8Pistache4Http9HttpErrorE, _ZTISt9exception);
  u8 b[NN]; for (int i = 0; i < NN; i++) { VP_SET(u8, b[i], "b"); }
#ifdef ASSUME_PREFIX
  /* optional focus: a fixed literal prefix (e.g. "GET /") so that longer lines reach the later parts of the step */
  { static const char pre[] = ASSUME_PREFIX; for (u64 i = 0; i + 1 < sizeof pre && i < NN; i++) __CPROVER_assume(b[i] == (u8)pre[i]); }
#endif
  out_t A, B;
  do_run(0, b, K, &A);
  do_run(1, b, NN, &B);
  if (A.thrown) {
    __CPROVER_assert(B.thrown && A.code == B.code, "(iii) an error raised on a prefix is raised, with the same code, on the whole line");
  } else if (A.state == 0) {
    __CPROVER_assert(A.consumed == 0, "(i) Again: the cursor is back at the start of the step (Revert)");
    if (!B.thrown) {
      __CPROVER_assert(nq[0] <= nq[1], "(i) Again: effects of the prefix run are a prefix of the whole run's (count)");
      for (int i = 0; i < MAXQ; i++) if (i < nq[0] && i < nq[1])
        __CPROVER_assert(q[0][i].ko == q[1][i].ko && q[0][i].kl == q[1][i].kl && q[0][i].vl == q[1][i].vl && q[0][i].vo == q[1][i].vo, "(i) Again: effects of the prefix run are a prefix of the whole run's (content)");
    }
  } else {
    __CPROVER_assert(A.state == 1, "a line step answers Again or Next");
    __CPROVER_assert(!B.thrown && B.state == 1 && A.consumed == B.consumed, "(ii) Next on a prefix: the whole line gives Next with the same consumed count");
    __CPROVER_assert(nq[0] == nq[1], "(ii) Next on a prefix: same number of query parameters");
    for (int i = 0; i < MAXQ; i++) if (i < nq[0] && i < nq[1])
      __CPROVER_assert(q[0][i].ko == q[1][i].ko && q[0][i].kl == q[1][i].kl && q[0][i].vl == q[1][i].vl && q[0][i].vo == q[1][i].vo, "(ii) Next on a prefix: same query parameters");
    __CPROVER_assert(A.method == B.method && A.res_off == B.res_off && A.res_len == B.res_len && A.version == B.version && A.rcode == B.rcode, "(ii) Next on a prefix: same method/target/version/status");
  }
  __CPROVER_assert(nq[0] <= MAXQ && nq[1] <= MAXQ, "effect log large enough for this bound");
#ifdef WITNESS
#ifdef H_RESP
  __CPROVER_assert(!(A.state == 0 && !A.thrown && B.state == 1 && !B.thrown), "witness: Again on the prefix, Next on the whole status line");
#else
  __CPROVER_assert(!(A.state == 0 && !A.thrown && B.state == 1 && !B.thrown && (WQ == 0 || nq[1] >= 1)), "witness: Again on the prefix, Next on the whole request line (with a query parameter when WQ)");
#endif
#endif
  return 0;
}
