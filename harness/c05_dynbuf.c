/* C05(a): DynamicStreamBuf (src/common/stream.cc, inl mode, real std::vector<char> growth code).
 * A buffer constructed with (S0, MAXSZ) receives two writes of L1 and L2 symbolic bytes through std::streambuf::xsputn
 * (byte-wise put: store into [pptr,epptr), call the REAL overflow() when the put area is full).
 * Asserted: a write is cut short iff the configured maximum is reached (accepted == min(len, MAXSZ - used)); the bytes in
 * [data, pptr) are exactly the accepted bytes in order (doubling never skips or duplicates a byte at a growth boundary);
 * the storage never exceeds MAXSZ; nothing is stored after a refused byte; clear() rewinds to the whole storage.          */
#include "vp.h"
#include "libc.h"
#include "str_real.h"
#include "offsets.h"
void _ZN8Pistache16DynamicStreamBufC2Emm(u8*, u64, u64);
u32 _ZN8Pistache16DynamicStreamBuf8overflowEi(u8*, u32);
void _ZN8Pistache16DynamicStreamBuf5clearEv(u8*);
#ifndef S0
#define S0 1
#endif
#ifndef MAXSZ
#define MAXSZ 5
#endif
#ifndef L1
#define L1 3
#endif
#ifndef L2
#define L2 4
#endif
#define PD(a, b) ((a) == (b) ? (u64)0 : (u64)((a) - (b)))   /* pointer difference, null-safe */
typedef struct { sb_t sb; rvec_t data; u64 maxSize; } dsb_t;
_Static_assert(offsetof(dsb_t, data) == OFF_DynamicStreamBuf_data && offsetof(dsb_t, maxSize) == OFF_DynamicStreamBuf_maxSize && sizeof(dsb_t) == SIZEOF_DynamicStreamBuf, "DynamicStreamBuf layout");
/* writes go through the put area byte by byte, as std::ostream::put / sputc do: store into [pptr,epptr) or call the REAL
 * overflow() when the put area is full (libstdc++'s bulk xsputn does the same with memcpy for the in-area part) */
static u64 put_bytes(dsb_t* b, u8* s, u64 n) {
  u64 ret = 0;
  for (u64 i = 0; i < L1 + L2 + 1; i++) if (i < n && ret == i) {
    if (b->sb.pptr != b->sb.epptr) { *b->sb.pptr = s[i]; b->sb.pptr++; ret++; }
    else { u32 c = _ZN8Pistache16DynamicStreamBuf8overflowEi((u8*)b, (u32)s[i]); if (c != (u32)-1) ret++; }
  }
  return ret; }
void _ZNSt6localeC1Ev(u8* l) { (void)l; }
void _ZNSt6localeD1Ev(u8* l) { (void)l; }
int main(void) {
  __ir_init_globals();
  static dsb_t B;
  _ZN8Pistache16DynamicStreamBufC2Emm((u8*)&B, S0, MAXSZ);
  __CPROVER_assert(!vp_take_exception(), "constructor does not throw");
  u8 w[L1 + L2 + 1]; for (int i = 0; i < L1 + L2; i++) { VP_SET(u8, w[i], "w"); }
  u64 used = 0; u8 expect[L1 + L2 + 1];
  u64 lens[2] = { L1, L2 }; u64 off = 0;
  for (int k = 0; k < 2; k++) {
    u64 a = put_bytes(&B, w + off, lens[k]);
    __CPROVER_assert(!vp_take_exception(), "write does not throw");
    u64 room = MAXSZ - used; u64 want = lens[k] < room ? lens[k] : room;
    __CPROVER_assert(a == want, "a write is cut short iff the configured maximum size is reached");
    for (u64 i = 0; i < L1 + L2; i++) if (i < a) expect[used + i] = w[off + i];
    used += a; off += lens[k];
    __CPROVER_assert(PD(B.data.e, B.data.b) <= MAXSZ, "the storage never grows beyond the configured maximum");
    __CPROVER_assert(PD(B.sb.pptr, B.data.b) == used, "the put pointer is at the number of accepted bytes (reported size == bytes stored)");
    __CPROVER_assert((i64)PD(B.data.e, B.sb.epptr) >= 0 && (i64)PD(B.sb.epptr, B.sb.pptr) >= 0, "the put area lies inside the storage");
  }
  for (u64 i = 0; i < L1 + L2; i++) if (i < used) __CPROVER_assert(B.data.b[i] == expect[i], "buffer contents are exactly the accepted bytes, in order");
  _ZN8Pistache16DynamicStreamBuf5clearEv((u8*)&B);
  __CPROVER_assert(B.sb.pptr == B.data.b && B.sb.epptr == B.data.e, "clear() rewinds the put area to the whole storage");
  VP_END("witness: end of harness reached");
  return 0;
}
