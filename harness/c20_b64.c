/* C20: Base64 encode/decode kernels (unit: src/common/base64.cc, inl mode, real std::string/vector layout).
 *   H_ROUNDTRIP: for every byte string of the concrete length N: Encode is the RFC 4648 text, Decode(Encode(x)) == x.
 *   H_DECODE:    for every NUL-terminated text of the concrete length N: Decode throws or yields <= 3N/4 bytes and
 *                never touches memory outside [text, text+N] (exact-size heap block; CBMC pointer checks).        */
#include "vp.h"
#include "str_real.h"
u8* _ZN13Base64Encoder6EncodeB5cxx11Ev(u8*);
u8* _ZN13Base64Decoder6DecodeEv(u8*);
#define VLEN(v) ((u64)(v)->e - (u64)(v)->b)
#ifndef N
#define N 4
#endif
static const char TAB[] = "ABCDEFGHIJKLMNOPQRSTUVWXYZabcdefghijklmnopqrstuvwxyz0123456789+/";
#ifdef REAL
extern int vp_real_exception;  /* set by the C++ shim when the real call threw */
int vp_call_guarded(u8* (*f)(u8*), u8* self, u8** ret);
#endif
static int call(u8* (*f)(u8*), u8* self, u8** ret) {
#ifdef REAL
  return vp_call_guarded(f, self, ret);
#else
  *ret = f(self); return vp_take_exception();
#endif
}
int main(void) {
#ifndef REAL
  __ir_init_globals();
#endif
  u64 n = N;
#ifdef H_ROUNDTRIP
  VP_BYTES(in, n, N, "in");
  rvec_t vec = { in, in + n, in + n };
  struct { void* vecp; rstr_t str; } enc; enc.vecp = &vec; rstr_init_empty(&enc.str);
  u8* s; int thr = call(_ZN13Base64Encoder6EncodeB5cxx11Ev, (u8*)&enc, &s);
  __CPROVER_assert(!thr, "Encode does not throw");
  rstr_t* es = (rstr_t*)s;
  VP_OBS("enc_len", es->len);
  __CPROVER_assert(es->len == 4 * ((n + 2) / 3), "encoded length is 4*ceil(n/3) (canonical, padded)");
  for (u64 i = 0; i < es->len; i += 4) {
    u64 j = i / 4 * 3; u32 a = in[j], b = j + 1 < n ? in[j + 1] : 0, c = j + 2 < n ? in[j + 2] : 0;
    VP_OBS("enc", es->p[i]); VP_OBS("enc", es->p[i + 1]); VP_OBS("enc", es->p[i + 2]); VP_OBS("enc", es->p[i + 3]);
    __CPROVER_assert(es->p[i] == (u8)TAB[a >> 2], "sextet 0 matches RFC 4648 reference");
    __CPROVER_assert(es->p[i + 1] == (u8)TAB[((a & 3) << 4) | (b >> 4)], "sextet 1 matches RFC 4648 reference");
    __CPROVER_assert(es->p[i + 2] == (j + 1 < n ? (u8)TAB[((b & 15) << 2) | (c >> 6)] : '='), "sextet 2 / padding matches reference");
    __CPROVER_assert(es->p[i + 3] == (j + 2 < n ? (u8)TAB[c & 63] : '='), "sextet 3 / padding matches reference");
  }
  __CPROVER_assert(es->p[es->len] == 0, "encoded text is NUL-terminated");
  struct { void* strp; rvec_t out; } dec = { s, { 0, 0, 0 } };
  u8* v; thr = call(_ZN13Base64Decoder6DecodeEv, (u8*)&dec, &v);
  __CPROVER_assert(!thr, "Decode(Encode(x)) does not throw");
  rvec_t* ov = (rvec_t*)v;
  VP_OBS("dec_len", VLEN(ov));
  __CPROVER_assert(VLEN(ov) == n, "round trip: decoded length == n");
  for (u64 i = 0; i < n; i++) { VP_OBS("dec", ov->b[i]); __CPROVER_assert(ov->b[i] == in[i], "round trip: decoded bytes == input"); }
#endif
#ifdef H_DECODE
  VP_BYTES(txt, n + 1, N + 1, "txt");
  for (u64 i = 0; i < n; i++) __CPROVER_assume(txt[i] != 0);
  __CPROVER_assume(txt[n] == 0);
  rstr_t str; rstr_init_heap(&str, txt, n);
  struct { void* strp; rvec_t out; } dec = { &str, { 0, 0, 0 } };
  u8* v; int thr = call(_ZN13Base64Decoder6DecodeEv, (u8*)&dec, &v);
  VP_OBS("threw", thr);
  if (!thr) {
    rvec_t* ov = (rvec_t*)v;
    VP_OBS("dec_len", VLEN(ov));
    __CPROVER_assert(VLEN(ov) <= 3 * n / 4, "decoded size <= 3*len/4");
    for (u64 i = 0; i < VLEN(ov); i++) VP_OBS("dec", ov->b[i]);
    /* decoded prefix agrees with a reference sextet decoder on the leading run of alphabet characters */
    u64 run = 0; while (run < n && ((txt[run] >= 'A' && txt[run] <= 'Z') || (txt[run] >= 'a' && txt[run] <= 'z') || (txt[run] >= '0' && txt[run] <= '9') || txt[run] == '+' || txt[run] == '/')) run++;
    u64 want = run / 4 * 3 + (run % 4 == 2 ? 1 : run % 4 == 3 ? 2 : 0);
    __CPROVER_assert(VLEN(ov) == want, "decoded size is derived from the leading run of alphabet characters");
  } else {
    __CPROVER_assert(n < 4 || n % 4 != 0, "Decode rejects only texts whose length is not a positive multiple of 4");
  }
#endif
  VP_END("witness: end of harness reached");
  return 0;
}
