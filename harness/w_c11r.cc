// C11 kernels, iterator-range form: Impl::WhenAllRange<int, std::vector<int>>.  Its Data / continuation types are private
// nested types, reached here through a replay-style include (no source change).
#include <memory>
#include <mutex>
#include <tuple>
#include <vector>
#include <string>
#include <functional>
#include <atomic>
#include <condition_variable>
#include <stdexcept>
#include <typeinfo>
#include <new>
#define private public
#define protected public
#include <pistache/async.h>
using namespace Pistache::Async;
typedef Impl::WhenAllRange<int, std::vector<int>> WAR;
typedef WAR::DataT<int> WarData;
extern "C" {
void c11_war_ctor(void* mem, size_t total, Resolver* r, Rejection* j) { new (mem) WarData(total, std::move(*r), std::move(*j)); }
void c11_war_fulfil(std::shared_ptr<WarData>& d, size_t index, const int& v) { WAR::WhenContinuation<int> c(d, index); c(v); }
}
