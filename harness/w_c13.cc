// Wrapper TU for C13: extern "C" entry points around the real Queue<T>/PollableQueue<T> code of include/pistache/mailbox.h,
// compiled with -DPISTACHE_VERIF_HOOKS so that every shared access is preceded by a call of pistache_verif_yield().
#include <memory>
#include <atomic>
#include <cstdint>
#include <sstream>
#include <iostream>
#include <string>
#include <vector>
#include <mutex>
#include <condition_variable>
#include <chrono>
#include <stdexcept>
#include <array>
#include <unordered_map>
#include <bitset>
#include <functional>
#include <thread>
#define private public
#define protected public
#include <pistache/mailbox.h>
using namespace Pistache;
extern "C" {
__attribute__((noinline)) PollableQueue<int>* vp_new(int fd) { auto* q = new PollableQueue<int>(); q->event_fd = fd; return q; }
__attribute__((noinline)) void vp_push(PollableQueue<int>* q, int v) { q->push(v); }
// the drain loop of Transport::handleWriteQueue / handlePeerQueue / handleTimerQueue and of the client's queues
__attribute__((noinline)) int vp_drain(PollableQueue<int>* q, int* out, int max) {
  int n = 0;
  for (;;) { auto e = q->popSafe(); if (!e) break; if (n < max) out[n] = *e; n++; }
  return n;
}
__attribute__((noinline)) int vp_linked(PollableQueue<int>* q) { int n = 0; for (auto* e = q->tail->next.load(); e; e = e->next.load()) n++; return n; }
}
