/* C10(c): Router::route (src/server/router.cc, sel mode) over NT per-method trees, each tree being a root node of the same ghost
 * shape as in c10_route.c on which the REAL findRoute (both overloads) runs one level deep (deeper levels are the induction
 * hypothesis proven by find_step).  Middlewares, custom handlers, the route handler, the not-found handler and the response
 * writer are recording stubs; path normalisation (std::regex) is a stub handing over an already normalised path.
 * Asserted, for every table / path / method / middleware and custom-handler outcome: exactly ONE of the following happens, once:
 *   a middleware stops the request | the route handler of the request's own method runs (with that tree's match) | a custom
 *   handler accepts | 405 with an Allow list naming exactly the other methods whose tree matches the path (in table order) |
 *   the not-found handler runs | a plain 404 is sent;  and the returned status says which.                                        */
#include "vp.h"
#include "libc.h"
#include "ghost.h"
#include "offsets.h"
#ifndef NPAR
#define NPAR 1
#endif
#ifndef NT
#define NT 3
#endif
#define KMAX 2
void _ZNK8Pistache4Rest15SegmentTreeNode9findRouteERKSt17basic_string_viewIcSt11char_traitsIcEERSt6vectorINS0_10TypedParamESaIS9_EESC_(u8*, u8*, u8*, u8*, u8*);
u32 _ZN8Pistache4Rest6Router5routeERKNS_4Http7RequestENS2_14ResponseWriterE(u8*, u8*, u8*);
#include "c10_models.h"
#define NCH 6
/* ------------------------------------------------------------------ the route table: NT entries pair<const Method, SegmentTreeNode> */
typedef struct { u32 method; u32 pad; u8 node[SIZEOF_Node]; } mentry_t;
_Static_assert(sizeof(mentry_t) == SIZEOF_MethodEntry && offsetof(mentry_t, node) == OFF_MethodEntry_node, "route table entry layout");
static mentry_t table[NT + 1]; static u64 ntab;
static u8 child[NT + 1][NCH][8];                       /* child node identities (never entered: recursion is stubbed) */
static entry_t ent_fixed[NT + 1][2], ent_param[NT + 1][2], ent_opt[NT + 1][1];
static u8 routes_[NT + 1][NCH + 1][8];
static u8 ch_found[NT + 1][NCH];
static void empty_tree(int t) {
  u8* nd = table[t].node;
  GM_(nd + OFF_Node_fixed)->n = 0; GM_(nd + OFF_Node_fixed)->e = ent_fixed[t]; GM_(nd + OFF_Node_param)->n = 0; GM_(nd + OFF_Node_param)->e = ent_param[t];
  GM_(nd + OFF_Node_optional)->n = 0; GM_(nd + OFF_Node_optional)->e = ent_opt[t]; *(u8**)(nd + OFF_Node_splat) = 0; *(u8**)(nd + OFF_Node_route) = 0; }
u8* _ZNSt13unordered_mapIN8Pistache4Http6MethodENS0_4Rest15SegmentTreeNodeESt4hashIS2_ESt8equal_toIS2_ESaISt4pairIKS2_S4_EEEixEOS2_(u8* m, u8* k) {
  (void)m; for (u64 i = 0; i < NT + 1; i++) if (i < ntab && table[i].method == *(u32*)k) return table[i].node;
  __CPROVER_assert(ntab <= NT, "at most one tree is created by a lookup (the request's own method)");
  table[ntab].method = *(u32*)k; empty_tree((int)ntab); ntab++; return table[ntab - 1].node; }
u8* _ZNSt13unordered_mapIN8Pistache4Http6MethodENS0_4Rest15SegmentTreeNodeESt4hashIS2_ESt8equal_toIS2_ESaISt4pairIKS2_S4_EEE5beginEv(u8* m) { (void)m; return (u8*)&table[0]; }
u8* _ZNSt13unordered_mapIN8Pistache4Http6MethodENS0_4Rest15SegmentTreeNodeESt4hashIS2_ESt8equal_toIS2_ESaISt4pairIKS2_S4_EEE3endEv(u8* m) { (void)m; return (u8*)&table[ntab]; }
u8* _ZNKSt8__detail14_Node_iteratorISt4pairIKN8Pistache4Http6MethodENS2_4Rest15SegmentTreeNodeEELb0ELb1EEdeEv(u8* it) { return *(u8**)it; }
u8* _ZNSt8__detail14_Node_iteratorISt4pairIKN8Pistache4Http6MethodENS2_4Rest15SegmentTreeNodeEELb0ELb1EEppEv(u8* it) { *(u8**)it += sizeof(mentry_t); return it; }
u8 _ZNSt8__detailneERKNS_19_Node_iterator_baseISt4pairIKN8Pistache4Http6MethodENS2_4Rest15SegmentTreeNodeEELb1EEESB_(u8* a, u8* b) { return *(u8**)a != *(u8**)b; }
/* induction hypothesis for the children of the root nodes (see c10_route.c) */
void vp_rec_findRoute(u8* ret, u8* self, u8* path, u8* params, u8* splats) {
  (void)path; int t = -1, k = -1;
  for (int i = 0; i < NT + 1; i++) for (int j = 0; j < NCH; j++) if (self == child[i][j]) { t = i; k = j; }
  __CPROVER_assert(t >= 0, "findRoute recurses only into children of a root node");
  if (t < 0) { __CPROVER_assume(0); }
  if (ch_found[t][k]) mk_result(ret, routes_[t][k], params, splats);
  else { static gvec_t e1, e2; e1.n = 0; e1.w = 0; e1.w2 = 0; e2.n = 0; e2.w = 0; e2.w2 = 0; mk_result(ret, 0, (u8*)&e1, (u8*)&e2); } }
u8* _ZNKSt19__shared_ptr_accessIN8Pistache4Rest5RouteELN9__gnu_cxx12_Lock_policyE2ELb0ELb0EEptEv(u8* sp) { return *(u8**)sp; }
void _ZNSt6vectorIN8Pistache4Rest10TypedParamESaIS2_EEC2ERKS4_(u8* d, u8* s) { GV(d)->n = GV(s)->n; GV(d)->w = GV(s)->w; GV(d)->w2 = GV(s)->w2; }
/* ------------------------------------------------------------------ request / response / handlers: recording stubs */
static u8 request[SIZEOF_Request] __attribute__((aligned(8))), response[512] __attribute__((aligned(8))), router[SIZEOF_Router] __attribute__((aligned(8)));
static gstr_t resource; static u32 req_method;
u8* _ZNK8Pistache4Http7Request8resourceB5cxx11Ev(u8* r) { (void)r; return (u8*)&resource; }
u32 _ZNK8Pistache4Http7Request6methodEv(u8* r) { (void)r; return req_method; }
void _ZN8Pistache4Http7MessageC2ERKS1_(u8* d, u8* s) { (void)d; (void)s; }
void _ZN8Pistache4Http7MessageD2Ev(u8* d) { (void)d; }
void _ZN8Pistache4Http7RequestD2Ev(u8* d) { (void)d; }
void _ZN8Pistache4Rest7RequestD2Ev(u8* d) { (void)d; }
void _ZN8Pistache4Http14ResponseWriterD2Ev(u8* d) { (void)d; }
void _ZN8Pistache4Http14ResponseWriterC1EOS1_(u8* d, u8* s) { (void)d; (void)s; }
void _ZNK8Pistache4Http14ResponseWriter5cloneEv(u8* ret, u8* self) { (void)ret; (void)self; }
void _ZN8Pistache5Async7PromiseIlED2Ev(u8* p) { (void)p; }
void _ZNSt8optionalIN8Pistache4Http4Mime1QEEC2Ev(u8* o) { o[2] = 0; }
#define NOOP2(sym) void sym(u8* a, u8* b) { (void)a; (void)b; }
#define NOOP1(sym) void sym(u8* a) { (void)a; }
NOOP2(_ZNSt13unordered_mapINSt7__cxx1112basic_stringIcSt11char_traitsIcESaIcEEEN8Pistache4Http6Header3RawENS8_13LowercaseHashENS8_14LowercaseEqualESaISt4pairIKS5_S9_EEEC2EOSG_)
NOOP2(_ZNSt13unordered_mapINSt7__cxx1112basic_stringIcSt11char_traitsIcESaIcEEES5_St4hashIS5_ESt8equal_toIS5_ESaISt4pairIKS5_S5_EEEC2EOSE_)
NOOP2(_ZNSt13unordered_mapINSt7__cxx1112basic_stringIcSt11char_traitsIcESaIcEEES5_St4hashIS5_ESt8equal_toIS5_ESaISt4pairIKS5_S5_EEEC2ERKSE_)
NOOP1(_ZNSt13unordered_mapINSt7__cxx1112basic_stringIcSt11char_traitsIcESaIcEEES5_St4hashIS5_ESt8equal_toIS5_ESaISt4pairIKS5_S5_EEEC2Ev)
NOOP1(_ZNSt13unordered_mapINSt7__cxx1112basic_stringIcSt11char_traitsIcESaIcEEES5_St4hashIS5_ESt8equal_toIS5_ESaISt4pairIKS5_S5_EEED2Ev)
NOOP2(_ZNSt13unordered_mapINSt7__cxx1112basic_stringIcSt11char_traitsIcESaIcEEES_IS5_N8Pistache4Http6CookieESt4hashIS5_ESt8equal_toIS5_ESaISt4pairIKS5_S8_EEESA_SC_SaISD_ISE_SH_EEEC2EOSK_)
NOOP2(_ZNSt13unordered_mapINSt7__cxx1112basic_stringIcSt11char_traitsIcESaIcEEESt10shared_ptrIN8Pistache4Http6Header6HeaderEENS9_13LowercaseHashENS9_14LowercaseEqualESaISt4pairIKS5_SB_EEEC2EOSI_)
/* path normalisation: std::regex_replace is outside; the request resource is handed over as the normalised path */
void _ZN8Pistache4Rest15SegmentTreeNode16sanitizeResourceERKNSt7__cxx1112basic_stringIcSt11char_traitsIcESaIcEEE(u8* ret, u8* s) { __CPROVER_assert(s == (u8*)&resource, "the request's resource is normalised"); GS(ret)->p = PATH; GS(ret)->len = GS(s)->len - 1; }
/* middlewares and custom handlers: vectors of std::function, outcomes chosen by the solver */
#ifndef NMW
#define NMW 2
#endif
static u8 mw_fn[NMW][SIZEOF_RouteMiddleware], ch_fn[NMW][SIZEOF_RouteHandler]; static u64 n_mw, n_ch; static u8 mw_res[NMW]; static u32 ch_res[NMW];
static int mw_calls[NMW], ch_calls[NMW]; static int seq, seq_mw_last = -1, seq_handler = -1, seq_ch_first = -1;
u8* _ZNSt6vectorISt8functionIFbRN8Pistache4Http7RequestERNS2_14ResponseWriterEEESaIS8_EE5beginEv(u8* v) { (void)v; return mw_fn[0]; }
u8* _ZNSt6vectorISt8functionIFbRN8Pistache4Http7RequestERNS2_14ResponseWriterEEESaIS8_EE3endEv(u8* v) { (void)v; return mw_fn[0] + n_mw * SIZEOF_RouteMiddleware; }
u8* _ZNSt6vectorISt8functionIFN8Pistache4Rest5Route6ResultENS2_7RequestENS1_4Http14ResponseWriterEEESaIS9_EE5beginEv(u8* v) { (void)v; return ch_fn[0]; }
u8* _ZNSt6vectorISt8functionIFN8Pistache4Rest5Route6ResultENS2_7RequestENS1_4Http14ResponseWriterEEESaIS9_EE3endEv(u8* v) { (void)v; return ch_fn[0] + n_ch * SIZEOF_RouteHandler; }
u8 _ZNKSt8functionIFbRN8Pistache4Http7RequestERNS1_14ResponseWriterEEEclES3_S5_(u8* f, u8* rq, u8* rs) { (void)rq; (void)rs; int i = f == mw_fn[0] ? 0 : NMW - 1; mw_calls[i]++; seq_mw_last = seq++; return mw_res[i]; }
u32 _ZNKSt8functionIFN8Pistache4Rest5Route6ResultENS1_7RequestENS0_4Http14ResponseWriterEEEclES4_S6_(u8* f, u8* rq, u8* rs) { (void)rq; (void)rs; int i = f == ch_fn[0] ? 0 : NMW - 1; ch_calls[i]++; if (seq_ch_first < 0) seq_ch_first = seq; seq++; return ch_res[i]; }
static u8 has_nf;
u8 _ZStneIN8Pistache4Rest5Route6ResultEJNS1_7RequestENS0_4Http14ResponseWriterEEEbRKSt8functionIFT_DpT0_EEDn(u8* f, u8* n) { (void)n; __CPROVER_assert(f == router + OFF_Router_notFoundHandler, "the not-found handler slot is tested"); return has_nf; }
static int n_handler, n_405, n_404, n_nf; static u8* handler_route; static gvec_t handler_params, handler_splats;
void _ZNK8Pistache4Rest5Route13invokeHandlerIJNS0_7RequestENS_4Http14ResponseWriterEEEEvDpOT_(u8* route, u8* rq, u8* rs) { (void)rq; (void)rs; n_handler++; handler_route = route; seq_handler = seq++; }
void _ZNK8Pistache4Rest6Router21invokeNotFoundHandlerERKNS_4Http7RequestENS2_14ResponseWriterE(u8* r, u8* rq, u8* rs) { (void)r; (void)rq; (void)rs; n_nf++; seq++; }
/* vector<Http::Method> supportedMethods -> sendMethodNotAllowed */
static u32 allow[NT + 2]; static int n_allow; static u32 sent_allow[NT + 2]; static int n_sent_allow;
void _ZNSt6vectorIN8Pistache4Http6MethodESaIS2_EEC2Ev(u8* v) { (void)v; n_allow = 0; }
void _ZNSt6vectorIN8Pistache4Http6MethodESaIS2_EED2Ev(u8* v) { (void)v; }
void _ZNSt6vectorIN8Pistache4Http6MethodESaIS2_EE9push_backERKS2_(u8* v, u8* m) { (void)v; __CPROVER_assert(n_allow < NT + 1, "Allow list within the table size"); allow[n_allow] = *(u32*)m; n_allow++; }
u8 _ZNKSt6vectorIN8Pistache4Http6MethodESaIS2_EE5emptyEv(u8* v) { (void)v; return n_allow == 0; }
void _ZN8Pistache4Http14ResponseWriter20sendMethodNotAllowedERKSt6vectorINS0_6MethodESaIS3_EE(u8* ret, u8* w, u8* v) { (void)ret; (void)v; __CPROVER_assert(w == response, "405 is sent on the response handed to route()"); n_405++; seq++; n_sent_allow = n_allow; for (int i = 0; i < NT + 1; i++) sent_allow[i] = allow[i]; }
void _ZN8Pistache4Http14ResponseWriter8sendImplENS0_4CodeEPKcmRKNS0_4Mime9MediaTypeE(u8* ret, u8* w, u32 code, u8* body, u64 len, u8* mime) { (void)ret; (void)body; (void)len; (void)mime; __CPROVER_assert(w == response && code == VP_CODE_NOT_FOUND, "the only plain response route() sends is 404, on the response handed to it"); n_404++; seq++; }

/* reference: does tree t match the (one-segment or empty) path?  (one level of the matcher proven by find_step) */
static u8* ref_match(int t, int pe, u64 seg_len) {
  u8* nd = table[t].node; gmapn_t* fx = GM_(nd + OFF_Node_fixed); gmapn_t* pa = GM_(nd + OFF_Node_param); gmapn_t* op = GM_(nd + OFF_Node_optional);
  u8* splat = *(u8**)(nd + OFF_Node_splat); u8* route = *(u8**)(nd + OFF_Node_route);
  if (pe) { if (route) return route; if (op->n && ch_found[t][4]) return routes_[t][4]; return 0; }
  sv_t seg = { seg_len, PATH };
  for (u64 k = 0; k < 2; k++) if (k < fx->n && sv_eq(&fx->e[k].key, &seg) && ch_found[t][k]) return routes_[t][k];
  for (u64 k = 0; k < 2; k++) if (k < pa->n && ch_found[t][2 + k]) return routes_[t][2 + k];
  if (op->n && ch_found[t][4]) return routes_[t][4];
  if (splat && ch_found[t][5]) return routes_[t][5];
  return 0; }

int main(void) {
  __ir_init_globals();
  for (int i = 0; i < 32; i++) { VP_SET(u8, arena[i], "key"); __CPROVER_assume(arena[i] != '/'); }
  /* table: ntab0 <= NT trees with distinct methods */
  u64 ntab0; VP_SET(u64, ntab0, "ntab"); __CPROVER_assume(ntab0 <= NT); ntab = ntab0;
  for (int t = 0; t < NT; t++) {
    VP_SET(u32, table[t].method, "tmethod"); __CPROVER_assume(table[t].method < 8);
    for (int u = 0; u < t; u++) __CPROVER_assume(table[u].method != table[t].method);
    u8* nd = table[t].node; u32 nf, np, no, hs, hr; VP_SET(u32, nf, "nf"); VP_SET(u32, np, "np"); VP_SET(u32, no, "no"); VP_SET(u32, hs, "hs"); VP_SET(u32, hr, "hr");
    __CPROVER_assume(nf <= 2 && np <= NPAR && no <= 1 && hs <= 1 && hr <= 1);
    u64 kl[5]; for (int i = 0; i < 5; i++) { VP_SET(u64, kl[i], "klen"); __CPROVER_assume(kl[i] >= 1 && kl[i] <= KMAX); }
    GM_(nd + OFF_Node_fixed)->n = nf; GM_(nd + OFF_Node_fixed)->e = ent_fixed[t]; GM_(nd + OFF_Node_param)->n = np; GM_(nd + OFF_Node_param)->e = ent_param[t];
    GM_(nd + OFF_Node_optional)->n = no; GM_(nd + OFF_Node_optional)->e = ent_opt[t];
    for (int k = 0; k < 2; k++) { ent_fixed[t][k].key.p = arena + 4 * k; ent_fixed[t][k].key.len = kl[k]; ent_fixed[t][k].node = child[t][k]; ent_fixed[t][k].ctrl = 0; }
    for (int k = 0; k < 2; k++) { ent_param[t][k].key.p = arena + 8 + 4 * k; ent_param[t][k].key.len = kl[2 + k]; ent_param[t][k].node = child[t][2 + k]; ent_param[t][k].ctrl = 0; }
    ent_opt[t][0].key.p = arena + 16; ent_opt[t][0].key.len = kl[4]; ent_opt[t][0].node = child[t][4]; ent_opt[t][0].ctrl = 0;
    if (nf == 2) __CPROVER_assume(!sv_eq(&ent_fixed[t][0].key, &ent_fixed[t][1].key));
    *(u8**)(nd + OFF_Node_splat) = hs ? (u8*)child[t][5] : (u8*)0; *(u8**)(nd + OFF_Node_route) = hr ? (u8*)routes_[t][NCH] : (u8*)0;
    for (int k = 0; k < NCH; k++) { VP_SET(u8, ch_found[t][k], "found"); __CPROVER_assume(ch_found[t][k] <= 1); }
  }
  /* request: method, and a normalised path that is empty ("/") or one segment */
  VP_SET(u32, req_method, "method"); __CPROVER_assume(req_method < 8);
  u32 pe; u64 seg_len; VP_SET(u32, pe, "path_empty"); VP_SET(u64, seg_len, "seg_len"); __CPROVER_assume(pe <= 1 && seg_len >= 1 && seg_len <= KMAX);
  for (int i = 0; i < KMAX; i++) { VP_SET(u8, PATH[i], "path"); __CPROVER_assume(PATH[i] != '/'); }
  static u8 raw[8]; raw[0] = '/'; resource.p = raw; resource.len = 1 + (pe ? 0 : seg_len);     /* non-empty resource "/" + path */
  VP_SET(u64, n_mw, "n_mw"); VP_SET(u64, n_ch, "n_ch"); __CPROVER_assume(n_mw <= NMW && n_ch <= NMW);
  for (int i = 0; i < NMW; i++) { VP_SET(u8, mw_res[i], "mw_res"); VP_SET(u32, ch_res[i], "ch_res"); __CPROVER_assume(mw_res[i] <= 1 && ch_res[i] <= 1); }
  VP_SET(u8, has_nf, "has_nf"); __CPROVER_assume(has_nf <= 1);
  u32 status = _ZN8Pistache4Rest6Router5routeERKNS_4Http7RequestENS2_14ResponseWriterE(router, request, response);
  __CPROVER_assert(!vp_take_exception(), "route() does not throw for a non-empty resource");
  /* reference */
  int stopped = 0; for (u64 i = 0; i < NMW; i++) if (i < n_mw && !stopped) { __CPROVER_assert(mw_calls[i] == 1, "middlewares run in order until one stops the request"); if (!mw_res[i]) stopped = 1; } else __CPROVER_assert(mw_calls[i] == 0, "no middleware runs after one has stopped the request");
  int total = n_handler + n_405 + n_404 + n_nf;
  if (stopped) { __CPROVER_assert(total == 0 && ch_calls[0] + ch_calls[NMW - 1] == 0 && status == VP_STATUS_MATCH, "a middleware that stops the request ends routing: no handler, no response"); }
  else {
    int own = -1; for (int t = 0; t < NT; t++) if (t < (int)ntab0 && table[t].method == req_method) own = t;
    u8* r_own = own >= 0 ? ref_match(own, (int)pe, seg_len) : (u8*)0;
    if (r_own) {
      __CPROVER_assert(n_handler == 1 && handler_route == r_own && total == 1 && status == VP_STATUS_MATCH, "the matching route of the request's method runs exactly once and nothing else answers");
      __CPROVER_assert(ch_calls[0] + ch_calls[NMW - 1] == 0, "custom handlers are not consulted when a route matches");
    } else {
      int accepted = 0; for (u64 i = 0; i < NMW; i++) if (i < n_ch && !accepted) { __CPROVER_assert(ch_calls[i] == 1, "custom handlers are tried in order"); if (ch_res[i] == VP_RESULT_OK) accepted = 1; } else __CPROVER_assert(ch_calls[i] == 0, "no custom handler runs after one has accepted");
      if (accepted) __CPROVER_assert(total == 0 && status == VP_STATUS_MATCH, "a custom handler that accepts ends routing");
      else {
        u32 want[NT + 1]; int nw = 0;
        for (int t = 0; t < NT; t++) if (t < (int)ntab0 && table[t].method != req_method && ref_match(t, (int)pe, seg_len)) { want[nw] = table[t].method; nw++; }
        if (nw > 0) {
          __CPROVER_assert(n_405 == 1 && total == 1 && status == VP_STATUS_NOTALLOWED, "no route of the request's method but other methods match: exactly one 405");
          __CPROVER_assert(n_sent_allow == nw, "Allow names exactly the methods that match the path");
          for (int i = 0; i < NT; i++) if (i < nw && n_sent_allow == nw) { int in = 0; for (int j = 0; j < NT; j++) if (j < nw && sent_allow[j] == want[i]) in = 1; __CPROVER_assert(in, "Allow names exactly the methods that match the path (as a set)"); }
        } else {
          __CPROVER_assert(total == 1 && status == VP_STATUS_NOTFOUND, "nothing matches: exactly one not-found answer");
          __CPROVER_assert(has_nf ? n_nf == 1 : n_404 == 1, "the not-found handler runs if installed, otherwise a plain 404 is sent");
        } } } }
  VP_END("witness: end of harness reached");
  return 0;
}
