/* C19: address/port text splitting and port range checking (src/common/net.cc, sel mode, ghost strings).
 *   H_PORT:   Port(const std::string&): accepted iff the text is a complete strtol numeral with 0 <= value <= 65535, and
 *             then the stored port equals that value (no truncation); otherwise std::invalid_argument.
 *   H_PARSER: AddressParser(text): host / port / hasColon / family equal a reference splitter written from the statement
 *             (bracketed literal first, otherwise the first ':').
 *   H_INIT:   Address::init(text): the port section accepts exactly as H_PORT does (80 when there is no colon) before any
 *             name resolution happens; resolution itself (inet_pton/getaddrinfo) is an arbitrary environment.              */
#include "vp.h"
#include "libc.h"
#include "ghost.h"
#include "offsets.h"
#ifndef N
#define N 8
#endif
void _ZN8Pistache4PortC2ERKNSt7__cxx1112basic_stringIcSt11char_traitsIcESaIcEEE(u8*, u8*);
void _ZN8Pistache13AddressParserC2ERKNSt7__cxx1112basic_stringIcSt11char_traitsIcESaIcEEE(u8*, u8*);
void _ZN8Pistache7Address4initERKNSt7__cxx1112basic_stringIcSt11char_traitsIcESaIcEEE(u8*, u8*);
typedef struct { gstr_t host; gstr_t port; u8 hasColon; u8 pad[3]; u32 family; } aparser_t;
_Static_assert(offsetof(aparser_t, port) == OFF_AddressParser_port && offsetof(aparser_t, hasColon) == OFF_AddressParser_hasColon && offsetof(aparser_t, family) == OFF_AddressParser_family, "AddressParser layout");
static u8 addr_obj[SIZEOF_Address] __attribute__((aligned(8)));
static int resolved; static u16 port_at_resolution;
/* environment: name resolution / literal conversion are arbitrary; they record that the port section has been passed */
static void note(void) { if (!resolved) { resolved = 1; port_at_resolution = *(u16*)(addr_obj + OFF_Address_port); } }
u32 nondet_u32(void);
u32 x_inet_pton(u32 af, u8* src, u8* dst) { (void)af; (void)src; (void)dst; note(); return 0; }
u32 x_getaddrinfo(u8* node, u8* service, u8* hints, u8* res) { (void)node; (void)service; (void)hints; (void)res; note(); return (u32)-2; }
void x_freeaddrinfo(u8* r) { (void)r; }
u8* x_inet_ntop(u32 af, u8* src, u8* dst, u32 n) { (void)af; (void)src; (void)n; return dst; }
u8* x_strerror(u32 e) { (void)e; return (u8*)"err"; }
u8* x_gai_strerror(u32 e) { (void)e; return (u8*)"err"; }
void _ZNSt6vectorINSt7__cxx1112basic_stringIcSt11char_traitsIcESaIcEEESaIS5_EEC2Ev(u8* v) { *(u8**)v = 0; *(u8**)(v + 8) = 0; *(u8**)(v + 16) = 0; }
void _ZNSt6vectorINSt7__cxx1112basic_stringIcSt11char_traitsIcESaIcEEESaIS5_EED2Ev(u8* v) { (void)v; }
u8 _ZNKSt6vectorINSt7__cxx1112basic_stringIcSt11char_traitsIcESaIcEEESaIS5_EE5emptyEv(u8* v) { (void)v; return 1; }
u8* _ZNKSt6vectorINSt7__cxx1112basic_stringIcSt11char_traitsIcESaIcEEESaIS5_EEixEm(u8* v, u64 i) { (void)v; (void)i; __CPROVER_assert(0, "vector index not reached"); return 0; }
u8* _ZNSt6vectorINSt7__cxx1112basic_stringIcSt11char_traitsIcESaIcEEESaIS5_EE12emplace_backIJRA16_cEEERS5_DpOT_(u8* v, u8* a) { (void)v; (void)a; return 0; }

/* reference: strtol-numeral acceptance of a port text t[0..n) (NUL at t[n]) */
static int ref_port(u8* t, u64 n, u32* val) {
  u64 i = 0; while (i < n && (t[i] == ' ' || (t[i] >= 9 && t[i] <= 13))) i++;
  int neg = 0; if (i < n && (t[i] == '+' || t[i] == '-')) { neg = t[i] == '-'; i++; }
  u64 v = 0; int any = 0, big = 0;
  while (i < n && t[i] >= '0' && t[i] <= '9') { if (v > 100000) big = 1; else v = v * 10 + (t[i] - '0'); any = 1; i++; }
  if (!any || i != n) return 0;
  if (big || v > 65535) return 0;
  if (neg && v != 0) return 0;
  *val = (u32)v; return 1; }

int main(void) {
  __ir_init_globals();
  VP_IN(u64, n, "n"); __CPROVER_assume(n <= N);
  u8* t = (u8*)malloc(N + 1); __CPROVER_assume(t != 0);   /* NUL-terminated std::string contents (capacity == N) */
  for (u64 i = 0; i < N; i++) { VP_SET(u8, t[i], "t"); if (i < n) __CPROVER_assume(t[i] != 0); else __CPROVER_assume(t[i] == 0); }
  t[N] = 0;
  gstr_t str = { t, n, { 0, 0 } };
#if defined(H_PORT)
  u8 port_obj[8];
  _ZN8Pistache4PortC2ERKNSt7__cxx1112basic_stringIcSt11char_traitsIcESaIcEEE(port_obj, (u8*)&str);
  int thr = vp_take_exception();
  u32 want = 0; int ok = ref_port(t, n, &want);
  if (thr) __CPROVER_assert(vp_exc_is(_ZTISt16invalid_argument), "rejection is std::invalid_argument");
  __CPROVER_assert((thr == 0) == (ok != 0), "Port(text) is accepted iff text is a complete numeral with 0 <= value <= 65535");
  if (!thr) __CPROVER_assert(*(u16*)(port_obj + OFF_Port_port) == want, "accepted port equals the numeral (no truncation)");
#elif defined(H_PARSER)
  aparser_t ap; ap.host.p = (u8*)""; ap.host.len = 0; ap.port.p = (u8*)""; ap.port.len = 0; ap.hasColon = 0; ap.family = 0;
  _ZN8Pistache13AddressParserC2ERKNSt7__cxx1112basic_stringIcSt11char_traitsIcESaIcEEE((u8*)&ap, (u8*)&str);
  int thr = vp_take_exception();
  if (thr) __CPROVER_assert(vp_exc_is(_ZTISt16invalid_argument), "rejection is std::invalid_argument");
  /* reference splitter */
  u64 lb = n, rb = n, fc = n;
  for (u64 i = N; i > 0; i--) { u64 j = i - 1; if (j < n) { if (t[j] == '[') lb = j; if (t[j] == ']') rb = j; if (t[j] == ':') fc = j; } }
  if (lb == n && rb == n) {            /* no brackets: split at the first ':' */
    if (fc == n) { __CPROVER_assert(!thr && ap.hasColon == 0 && ap.family == 2 && ap.host.len == n && ap.port.len == 0, "no colon: whole text is the host, no port"); }
    else if (fc + 1 == n) { __CPROVER_assert(thr, "empty port after ':' is rejected"); }
    else { __CPROVER_assert(!thr && ap.hasColon == 1 && ap.family == 2, "IPv4/name form: colon seen, family AF_INET");
           __CPROVER_assert(ap.host.p == t && ap.host.len == fc, "host is the text before the first ':'");
           __CPROVER_assert(ap.port.p == t + fc + 1 && ap.port.len == n - fc - 1, "port is the text after the first ':'"); }
  } else if (lb == 0 && rb != n && rb > 0) {   /* bracketed literal at the start */
    if (rb + 1 == n) { __CPROVER_assert(!thr && ap.family == 10 && ap.hasColon == 0 && ap.host.p == t && ap.host.len == rb + 1 && ap.port.len == 0, "[literal] without port"); }
    else if (t[rb + 1] == ':') {
      if (rb + 2 == n) __CPROVER_assert(thr, "empty port after ']:' is rejected");
      else { __CPROVER_assert(!thr && ap.family == 10 && ap.hasColon == 1 && ap.host.p == t && ap.host.len == rb + 1, "[literal]:port: host is the bracketed literal, family AF_INET6");
             __CPROVER_assert(ap.port.p == t + rb + 2 && ap.port.len == n - rb - 2, "[literal]:port: port is the text after ']:'"); } }
    else __CPROVER_assert(thr, "text after the closing bracket of an IPv6 literal that is not ':port' is rejected (malformed literal)");
  }
#elif defined(H_INIT)
  *(u16*)(addr_obj + OFF_Address_port) = 7;
  _ZN8Pistache7Address4initERKNSt7__cxx1112basic_stringIcSt11char_traitsIcESaIcEEE(addr_obj, (u8*)&str);
  int thr = vp_take_exception();
  /* shape: plain host[:port] without brackets */
  int plain = 1; u64 fc = n;
  for (u64 i = N; i > 0; i--) { u64 j = i - 1; if (j < n) { if (t[j] == '[' || t[j] == ']') plain = 0; if (t[j] == ':') fc = j; } }
  if (plain) {
    u32 want = 80; int ok = 1;
    if (fc != n) ok = ref_port(t + fc + 1, n - fc - 1, &want) && fc + 1 < n;
    __CPROVER_assert((resolved != 0) == (ok != 0), "name resolution is attempted iff the port text is acceptable (0..65535, complete numeral; 80 when absent)");
    if (resolved) __CPROVER_assert(port_at_resolution == want, "the port stored is the numeral given (80 when absent), not a truncation");
    if (!ok) __CPROVER_assert(thr && vp_exc_is(_ZTISt16invalid_argument), "an unacceptable port is rejected with std::invalid_argument");
  }
#endif
  VP_END("witness: end of harness reached");
  return 0;
}
