/* HeadersStep::apply of src/common/http.cc in sel mode: two-run lemma L2 of C01 (see c01_lines.c) plus C16(b):
 * every header line hands exactly (line start .. ':') as the name and (first non-space after ':' .. CRLF) as the value to
 * addRaw / parseRaw / the cookie parsers.  Message-mutating callees are recording stubs; their effect logs are compared.
 * Registry::isRegistered is an arbitrary but fixed predicate (one symbolic registered name, compared case-insensitively);
 * value parsers (parseRaw, Cookie::fromRaw, CookieJar::addFromRaw) reject arbitrarily but deterministically (value starts
 * with a symbolic "bad" byte) -- they are verified themselves as separate units (C03/C16/C17).                          */
#include "vp.h"
#include "libc.h"
#include "ghost.h"
#include "cursor_contract.h"
#include "offsets.h"
#ifndef NN
#define NN 12
#endif
#ifndef K
#define K 6
#endif
#define MAXE 10
u32 _ZN8Pistache4Http7Private11HeadersStep5applyERNS_12StreamCursorE(u8*, u8*);
typedef struct { void* vptr; u8* message; } step_t;
enum { E_REMOVE_COOKIES = 1, E_ADD_FROM_RAW, E_SET_COOKIE, E_PARSE_RAW, E_ADD_TYPED, E_ADD_RAW };
typedef struct { u32 kind; u64 o1, l1, o2, l2; } eff_t;
static int run; static u8* base[2]; static u64 blen[2]; static eff_t eff[2][MAXE]; static int ne[2];
static u8 reg_name[2]; static u64 reg_len; static u8 bad;
u32 vp_http_code;
u8 _ZTIN8Pistache4Http9HttpErrorE[24] __attribute__((aligned(8)));
static void log_eff(u32 kind, u8* p1, u64 l1, u8* p2, u64 l2) {
  int r = run;
  if (ne[r] < MAXE) { eff[r][ne[r]].kind = kind; eff[r][ne[r]].o1 = l1 ? (u64)p1 - (u64)base[r] : 0; eff[r][ne[r]].l1 = l1; eff[r][ne[r]].o2 = l2 ? (u64)p2 - (u64)base[r] : 0; eff[r][ne[r]].l2 = l2; }
  ne[r]++; }
static void throw_http(u32 code) { vp_http_code = code; u8* o = (u8*)malloc(16); __CPROVER_assume(o != 0); VP_EXC_SETVT(o); __ir_exc_obj = o; __ir_exc_type = _ZTIN8Pistache4Http9HttpErrorE; __ir_exc_pending = 1; }
void _ZN8Pistache4Http7Private4Step5raiseEPKcNS0_4CodeE(u8* msg, u32 code) { (void)msg; throw_http(code); }
static int inside(u8* p, u64 n) { int r = run; return n == 0 || ((u64)p >= (u64)base[r] && (u64)p + n <= (u64)base[r] + blen[r]); }
static int rejects(u8* p, u64 n) { return n > 0 && p[0] == bad; }
static u8 lc(u8 c) { return (c >= 'A' && c <= 'Z') ? c + 32 : c; }
/* Header::LowercaseEqualStatic(dynamic, static): std::equal(dynamic, static, tolower(a) == b) */
u8 _ZN8Pistache4Http6Header20LowercaseEqualStaticERKNSt7__cxx1112basic_stringIcSt11char_traitsIcESaIcEEES9_(u8* dyn, u8* st) {
  if (GS(dyn)->len != GS(st)->len) return 0;
  for (u64 i = 0; i < 10; i++) if (i < GS(dyn)->len && lc(GS(dyn)->p[i]) != GS(st)->p[i]) return 0;
  return 1; }
static u8 registry_obj[8];
u8* _ZN8Pistache4Http6Header8Registry8instanceEv(void) { return registry_obj; }
u8 _ZN8Pistache4Http6Header8Registry12isRegisteredERKNSt7__cxx1112basic_stringIcSt11char_traitsIcESaIcEEE(u8* self, u8* name) {
  (void)self; if (GS(name)->len != reg_len) return 0;
  for (u64 i = 0; i < 2; i++) if (i < reg_len && lc(GS(name)->p[i]) != lc(reg_name[i])) return 0;
  return 1; }
/* fake typed header object: { vptr } with parseRaw in slot 4 */
void vp_hdr_parseRaw(u8* self, u8* p, u64 n) { (void)self; __CPROVER_assert(inside(p, n), "parseRaw receives a range inside the delivered bytes"); log_eff(E_PARSE_RAW, p, n, 0, 0); if (rejects(p, n)) throw_http(400); }
static void* hdr_vt[8] = { 0, 0, 0, 0, (void*)vp_hdr_parseRaw, 0, 0, 0 };
static struct { void** vptr; } hdr_obj[2] = { { hdr_vt }, { hdr_vt } };
void __ir_indirect_rvoid_u8p_u8p_u64(u8* fp, u8* a0, u8* a1, u64 a2) { if (fp == (u8*)vp_hdr_parseRaw) { vp_hdr_parseRaw(a0, a1, a2); return; } __ir_bad_indirect(); }
void _ZN8Pistache4Http6Header14EncodingHeader8parseRawEPKcm(u8* self, u8* p, u64 n) { (void)self; (void)p; (void)n; __CPROVER_assert(0, "EncodingHeader::parseRaw is not the target of the fake header object"); }
/* unique_ptr<Header> Registry::makeHeader(name): sret */
void _ZN8Pistache4Http6Header8Registry10makeHeaderERKNSt7__cxx1112basic_stringIcSt11char_traitsIcESaIcEEE(u8* ret, u8* self, u8* name) { (void)self; (void)name; *(u8**)ret = (u8*)&hdr_obj[run]; }
void _ZNSt10shared_ptrIN8Pistache4Http6Header6HeaderEEC2IS3_St14default_deleteIS3_EvEEOSt10unique_ptrIT_T0_E(u8* sp, u8* up) { *(u8**)sp = *(u8**)up; *(u8**)(sp + 8) = 0; *(u8**)up = 0; }
u8* _ZNKSt19__shared_ptr_accessIN8Pistache4Http6Header6HeaderELN9__gnu_cxx12_Lock_policyE2ELb0ELb0EEptEv(u8* sp) { return *(u8**)sp; }
void _ZNSt10unique_ptrIN8Pistache4Http6Header6HeaderESt14default_deleteIS3_EED2Ev(u8* up) { (void)up; }
void _ZNSt12__shared_ptrIN8Pistache4Http6Header6HeaderELN9__gnu_cxx12_Lock_policyE2EED2Ev(u8* sp) { (void)sp; }
u8* _ZN8Pistache4Http6Header10Collection3addERKSt10shared_ptrINS1_6HeaderEE(u8* self, u8* sp) { (void)sp; log_eff(E_ADD_TYPED, 0, 0, 0, 0); return self; }
u8* _ZN8Pistache4Http6Header10Collection6addRawERKNS1_3RawE(u8* self, u8* raw) {
  gstr_t* nm = (gstr_t*)raw; gstr_t* val = (gstr_t*)(raw + 32);
  __CPROVER_assert(inside(nm->p, nm->len) && inside(val->p, val->len), "addRaw receives name/value ranges inside the delivered bytes");
  log_eff(E_ADD_RAW, nm->p, nm->len, val->p, val->len); return self; }
void _ZN8Pistache4Http9CookieJar16removeAllCookiesEv(u8* self) { (void)self; log_eff(E_REMOVE_COOKIES, 0, 0, 0, 0); }
void _ZN8Pistache4Http9CookieJar10addFromRawEPKcm(u8* self, u8* p, u64 n) { (void)self; __CPROVER_assert(inside(p, n), "addFromRaw receives a range inside the delivered bytes"); log_eff(E_ADD_FROM_RAW, p, n, 0, 0); if (rejects(p, n)) throw_http(400); }
void _ZN8Pistache4Http6Cookie7fromRawEPKcm(u8* ret, u8* p, u64 n) { (void)ret; __CPROVER_assert(inside(p, n), "Cookie::fromRaw receives a range inside the delivered bytes"); log_eff(E_SET_COOKIE, p, n, 0, 0); if (rejects(p, n)) throw_http(400); }
void _ZN8Pistache4Http9CookieJar3addERKNS0_6CookieE(u8* self, u8* c) { (void)self; (void)c; }
void _ZNSt14_Optional_baseINSt7__cxx1112basic_stringIcSt11char_traitsIcESaIcEEELb0ELb0EED2Ev(u8* s) { (void)s; }
void _ZNSt3mapINSt7__cxx1112basic_stringIcSt11char_traitsIcESaIcEEES5_St4lessIS5_ESaISt4pairIKS5_S5_EEED2Ev(u8* s) { (void)s; }

typedef struct { u32 state; int thrown; u32 code; u64 consumed; } out_t;
static u8 msgs[2][SIZEOF_Request] __attribute__((aligned(16)));
static void do_run(int r, u8* b, u64 len, out_t* o) {
  run = r; ne[r] = 0;
  u8* d = (u8*)malloc(len); __CPROVER_assume(d != 0);
  for (u64 j = 0; j < NN; j++) if (j < len) d[j] = b[j];
  base[r] = d; blen[r] = len;
  sb_t sb; vp_sb_init(&sb, d, 0, len); cursor_t c = { &sb };
  step_t st = { 0, msgs[r] };
  o->state = _ZN8Pistache4Http7Private11HeadersStep5applyERNS_12StreamCursorE((u8*)&st, (u8*)&c);
  o->thrown = vp_take_exception(); o->code = o->thrown ? (vp_exc_is(_ZTIN8Pistache4Http9HttpErrorE) ? vp_http_code : 500) : 0;
  __CPROVER_assert(sb.eback == d && sb.egptr == d + len && (u64)sb.gptr >= (u64)d && (u64)sb.gptr <= (u64)d + len, "cursor stays inside the delivered bytes");
  o->consumed = (u64)sb.gptr - (u64)d;
}
static int same(eff_t* x, eff_t* y) { return x->kind == y->kind && x->o1 == y->o1 && x->l1 == y->l1 && x->o2 == y->o2 && x->l2 == y->l2; }

int main(void) {
  __ir_init_globals();
  __ir_ti_si(_ZTIN8Pistache4Http9HttpErrorE, _ZTISt9exception);
  u8 b[NN]; for (int i = 0; i < NN; i++) { VP_SET(u8, b[i], "b"); }
  VP_SET(u8, reg_name[0], "reg"); VP_SET(u8, reg_name[1], "reg"); VP_SET(u64, reg_len, "reg_len"); __CPROVER_assume(reg_len >= 1 && reg_len <= 2);
  VP_SET(u8, bad, "bad");
  out_t A, B;
  do_run(0, b, K, &A);
  do_run(1, b, NN, &B);
  __CPROVER_assert(ne[0] <= MAXE && ne[1] <= MAXE, "effect log large enough for this bound");
  if (A.thrown) {
    __CPROVER_assert(B.thrown && A.code == B.code, "(iii) an error raised on a prefix is raised, with the same code, on the whole header block");
  } else if (A.state == 0) {
    __CPROVER_assert(A.consumed == 0, "(i) Again: the cursor is back at the start of the step (Revert)");
    __CPROVER_assert(ne[0] <= ne[1], "(i) Again: effects of the prefix run are a prefix of the whole run's (count)");
    for (int i = 0; i < MAXE; i++) if (i < ne[0] && i < ne[1]) __CPROVER_assert(same(&eff[0][i], &eff[1][i]), "(i) Again: effects of the prefix run are a prefix of the whole run's (content)");
  } else {
    __CPROVER_assert(A.state == 1, "the headers step answers Again or Next");
    __CPROVER_assert(!B.thrown && B.state == 1 && A.consumed == B.consumed, "(ii) Next on a prefix: the whole block gives Next with the same consumed count");
    __CPROVER_assert(ne[0] == ne[1], "(ii) Next on a prefix: same number of effects");
    for (int i = 0; i < MAXE; i++) if (i < ne[0] && i < ne[1]) __CPROVER_assert(same(&eff[0][i], &eff[1][i]), "(ii) Next on a prefix: same effects");
  }
  /* C16(b): what the whole run stores is exactly what was sent (reference splitter on the first header line) */
  if (!B.thrown && ne[1] >= 1 && !(NN >= 2 && b[0] == 13 && b[1] == 10)) {
    u64 colon = 0; while (colon < NN && b[colon] != ':') colon++;
    u64 vs = colon + 1; while (vs < NN && b[vs] == ' ') vs++;
    u64 ve = vs; while (ve + 1 < NN && !(b[ve] == 13 && b[ve + 1] == 10)) ve++;
    int k_raw = -1; for (int i = 0; i < MAXE; i++) if (k_raw < 0 && i < ne[1] && eff[1][i].kind == E_ADD_RAW) k_raw = i;
    if (k_raw >= 0) {
      __CPROVER_assert(eff[1][k_raw].l1 == colon && (colon == 0 || eff[1][k_raw].o1 == 0), "C16(b): the stored name is the bytes from the line start to ':'");
      __CPROVER_assert(eff[1][k_raw].l2 == ve - vs && (ve == vs || eff[1][k_raw].o2 == vs), "C16(b): the stored value is the bytes from the first non-space after ':' to CRLF");
      for (int i = 0; i < MAXE; i++) if (i < k_raw && (eff[1][i].kind == E_PARSE_RAW || eff[1][i].kind == E_ADD_FROM_RAW || eff[1][i].kind == E_SET_COOKIE))
        __CPROVER_assert(eff[1][i].l1 == ve - vs && (ve == vs || eff[1][i].o1 == vs), "C16(b): the typed/cookie parser receives the same value range");
    }
  }
#ifdef WITNESS
  __CPROVER_assert(!(A.state == 0 && !A.thrown && B.state == 1 && !B.thrown && ne[1] >= WE), "witness: Again on the prefix, Next on the whole block with WE effects");
#endif
  return 0;
}
