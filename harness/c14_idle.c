/* C14(b): the read time-out decision, TransportImpl::checkIdlePeers (src/server/endpoint.cc, sel mode).
 * State: NP peers, each with a parser whose start-of-request time, current step id (request line / headers / body / other)
 * are symbolic; header and body time-outs are symbolic millisecond counts (0 .. 2^TBITS-1); steady_clock::now() returns an
 * arbitrary non-decreasing instant not earlier than any start time.  Recording stubs for ResponseWriter, send() and
 * Promise::then().  Asserted, per peer: a 408 is sent iff
 *      (the request head is incomplete and elapsed > header time-out)  or  (elapsed > body time-out)
 * (the request as a whole is incomplete in every phase), exactly one response per timed-out peer per scan, written as
 * HTTP/1.1 through this transport, and both continuations of the send remove (close) exactly that peer.                */
#include "vp.h"
#include "libc.h"
#include "ghost.h"
#include "offsets.h"
#ifndef NP
#define NP 2
#endif
#ifndef TBITS
#define TBITS 12   /* time-outs 0 .. 2^TBITS-1 ms: the ms->ns multiplication makes the SAT query exponential in this width (measured: 12 bits 9 s, 14 bits 73 s, 16 bits > 400 s) */
#endif
void _ZN8Pistache4Http13TransportImpl14checkIdlePeersEv(u8*);
static u8 transport[SIZEOF_TransportImpl] __attribute__((aligned(8)));
typedef struct { u8* p; u8* c; } sp_t;
typedef struct { u32 fd; u32 pad; sp_t peer; } node_t;
static node_t node[NP]; static int np;
static u8 peerobj[NP][8]; static u8 parser[NP][SIZEOF_RequestParser] __attribute__((aligned(8)));
typedef struct { void** vptr; } stepobj_t;
static stepobj_t stepobj[NP]; static u64 stepid[NP]; static i64 start[NP];
static i64 now_last; static i64 now_at[NP]; static int now_calls;
static int sent[NP], writers[NP], thens[NP]; static u32 code_[NP];
static u8 handler_obj[64];
static int peer_index(u8* p) { for (int i = 0; i < NP; i++) if (p == peerobj[i]) return i; return -1; }
/* ---- unordered_map<Fd, shared_ptr<Peer>> peers: iteration in node order */
#define PM "St13unordered_mapIiSt10shared_ptrIN8Pistache3Tcp4PeerEESt4hashIiESt8equal_toIiESaISt4pairIKiS4_EEE"
u8* _ZNSt13unordered_mapIiSt10shared_ptrIN8Pistache3Tcp4PeerEESt4hashIiESt8equal_toIiESaISt4pairIKiS4_EEE5beginEv(u8* m) {
  __CPROVER_assert(m == transport + OFF_Transport_peers, "the peers map of this transport is scanned"); return np > 0 ? (u8*)&node[0] : 0; }
u8* _ZNSt13unordered_mapIiSt10shared_ptrIN8Pistache3Tcp4PeerEESt4hashIiESt8equal_toIiESaISt4pairIKiS4_EEE3endEv(u8* m) { (void)m; return 0; }
u8 _ZNSt8__detailneERKNS_19_Node_iterator_baseISt4pairIKiSt10shared_ptrIN8Pistache3Tcp4PeerEEELb0EEESB_(u8* a, u8* b) { return *(u8**)a != *(u8**)b; }
u8* _ZNKSt8__detail14_Node_iteratorISt4pairIKiSt10shared_ptrIN8Pistache3Tcp4PeerEEELb0ELb0EEdeEv(u8* it) { return *(u8**)it; }
u8* _ZNSt8__detail14_Node_iteratorISt4pairIKiSt10shared_ptrIN8Pistache3Tcp4PeerEEELb0ELb0EEppEv(u8* it) {
  node_t* n = *(node_t**)it; int i = (int)(n - node); *(u8**)it = (i + 1 < np) ? (u8*)&node[i + 1] : 0; return it; }
/* ---- parser access */
void _ZN8Pistache4Http7Handler9getParserERKSt10shared_ptrINS_3Tcp4PeerEE(u8* ret, u8* peer) {
  int i = peer_index(((sp_t*)peer)->p); __CPROVER_assert(i >= 0, "getParser of a known peer"); ((sp_t*)ret)->p = i >= 0 ? (u8*)parser[i] : (u8*)0; ((sp_t*)ret)->c = 0; }
u8* _ZNKSt19__shared_ptr_accessIN8Pistache4Http7Private10ParserImplINS1_7RequestEEELN9__gnu_cxx12_Lock_policyE2ELb0ELb0EEptEv(u8* sp) { return ((sp_t*)sp)->p; }
void _ZNSt12__shared_ptrIN8Pistache4Http7Private10ParserImplINS1_7RequestEEELN9__gnu_cxx12_Lock_policyE2EED2Ev(u8* sp) { (void)sp; }
static int parser_index(u8* p) { for (int i = 0; i < NP; i++) if (p == parser[i]) return i; return -1; }
u8* _ZN8Pistache4Http7Private10ParserBase4stepEv(u8* p) { int i = parser_index(p); __CPROVER_assert(i >= 0, "step() of a known parser"); return (u8*)&stepobj[i < 0 ? 0 : i]; }
u64 vp_step_id(u8* self) { int i = (int)((stepobj_t*)self - stepobj); return stepid[i]; }
static void* step_vt[4] = { 0, 0, (void*)vp_step_id, 0 };     /* Step: slots 0,1 destructors, 2 id() */
u64 __ir_indirect_ru64_u8p(u8* fp, u8* self) { if (fp == (u8*)vp_step_id) return vp_step_id(self); __ir_bad_indirect(); return 0; }
/* ---- clock: arbitrary, non-decreasing, not before any request started */
i64 nondet_i64(void);
u64 _ZNSt6chrono3_V212steady_clock3nowEv(void) {
  VP_IN(i64, t, "now"); __CPROVER_assume(t >= now_last); now_last = t;
  if (now_calls < NP) now_at[now_calls] = t;
  now_calls++; return (u64)t; }
/* ---- vector<shared_ptr<Peer>> idlePeers */
static sp_t idle[NP + 1]; static int nidle;
#define VEC "St6vectorISt10shared_ptrIN8Pistache3Tcp4PeerEESaIS4_EE"
void _ZNSt6vectorISt10shared_ptrIN8Pistache3Tcp4PeerEESaIS4_EEC2Ev(u8* v) { (void)v; nidle = 0; }
void _ZNSt6vectorISt10shared_ptrIN8Pistache3Tcp4PeerEESaIS4_EED2Ev(u8* v) { (void)v; }
void _ZNSt6vectorISt10shared_ptrIN8Pistache3Tcp4PeerEESaIS4_EE9push_backERKS4_(u8* v, u8* x) { (void)v; __CPROVER_assert(nidle < NP + 1, "ghost vector capacity"); idle[nidle] = *(sp_t*)x; nidle++; }
u8* _ZNSt6vectorISt10shared_ptrIN8Pistache3Tcp4PeerEESaIS4_EE5beginEv(u8* v) { (void)v; return (u8*)&idle[0]; }
u8* _ZNSt6vectorISt10shared_ptrIN8Pistache3Tcp4PeerEESaIS4_EE3endEv(u8* v) { (void)v; return (u8*)&idle[nidle]; }
/* ---- shared_ptr / weak_ptr<Peer> */
void _ZNSt10shared_ptrIN8Pistache3Tcp4PeerEEC2ERKS3_(u8* d, u8* s) { *(sp_t*)d = *(sp_t*)s; }
void _ZNSt12__shared_ptrIN8Pistache3Tcp4PeerELN9__gnu_cxx12_Lock_policyE2EED2Ev(u8* s) { (void)s; }
void _ZNSt8weak_ptrIN8Pistache3Tcp4PeerEEC2IS2_vEERKSt10shared_ptrIT_E(u8* d, u8* s) { *(sp_t*)d = *(sp_t*)s; }
void _ZNSt10__weak_ptrIN8Pistache3Tcp4PeerELN9__gnu_cxx12_Lock_policyE2EED2Ev(u8* s) { (void)s; }
u8* _ZNKSt12__shared_ptrIN8Pistache3Tcp7HandlerELN9__gnu_cxx12_Lock_policyE2EE3getEv(u8* sp) { return ((sp_t*)sp)->p; }
/* ---- response: recording stubs */
static u8* writer_of[NP];
void _ZN8Pistache4Http14ResponseWriterC1ENS0_7VersionEPNS_3Tcp9TransportEPNS0_7HandlerESt8weak_ptrINS3_4PeerEE(u8* w, u32 version, u8* tr, u8* h, u8* peer) {
  (void)h; int i = peer_index(((sp_t*)peer)->p); __CPROVER_assert(i >= 0, "a response is written to a peer of this transport");
  __CPROVER_assert(version == VP_HTTP11 && tr == transport, "the time-out response is HTTP/1.1 on this transport");
  if (i >= 0) { writers[i]++; writer_of[i] = w; } }
void _ZN8Pistache4Http14ResponseWriterD2Ev(u8* w) { (void)w; }
void _ZN8Pistache4Http14ResponseWriterD1Ev(u8* w) { (void)w; }
static u8* promise_of[NP];
void _ZN8Pistache4Http14ResponseWriter4sendENS0_4CodeERKNSt7__cxx1112basic_stringIcSt11char_traitsIcESaIcEEERKNS0_4Mime9MediaTypeE(u8* ret, u8* w, u32 code, u8* body, u8* mime) {
  (void)mime; int i = -1; for (int k = 0; k < NP; k++) if (writer_of[k] == w) i = k;
  __CPROVER_assert(i >= 0, "send() on the writer created for the timed-out peer");
  __CPROVER_assert(GS(body)->len == 0, "the time-out response has no body");
  if (i >= 0) { sent[i]++; code_[i] = code; promise_of[i] = ret; } }
void vp_then_stub(u8* ret, u8* promise, u8* onok, u8* onerr) {
  (void)ret; int i = -1; for (int k = 0; k < NP; k++) if (promise_of[k] == promise) i = k;
  __CPROVER_assert(i >= 0, "continuations are attached to the promise of that send()");
  if (i >= 0) { thens[i]++;
    __CPROVER_assert(*(u8**)onok == transport && ((sp_t*)(onok + 8))->p == peerobj[i], "on success the timed-out peer itself is removed (closed)");
    __CPROVER_assert(*(u8**)onerr == transport && ((sp_t*)(onerr + 8))->p == peerobj[i], "on failure the timed-out peer itself is removed (closed)"); } }
void _ZN8Pistache5Async7PromiseIlED2Ev(u8* p) { (void)p; } void _ZN8Pistache5Async7PromiseIvED2Ev(u8* p) { (void)p; }
void _ZNSt13unordered_mapINSt7__cxx1112basic_stringIcSt11char_traitsIcESaIcEEES5_St4hashIS5_ESt8equal_toIS5_ESaISt4pairIKS5_S5_EEEC2Ev(u8* m) { (void)m; }
void _ZNSt13unordered_mapINSt7__cxx1112basic_stringIcSt11char_traitsIcESaIcEEES5_St4hashIS5_ESt8equal_toIS5_ESaISt4pairIKS5_S5_EEED2Ev(u8* m) { (void)m; }
void _ZNSt8optionalIN8Pistache4Http4Mime1QEEC2Ev(u8* o) { o[1] = 0; }

int main(void) {
  __ir_init_globals();
  VP_IN(u8, np_, "np"); __CPROVER_assume(np_ <= NP); np = np_;
  VP_IN(i64, H, "header_ms"); VP_IN(i64, B, "body_ms"); __CPROVER_assume(H >= 0 && H < ((i64)1 << TBITS) && B >= 0 && B < ((i64)1 << TBITS));
  *(i64*)(transport + OFF_TransportImpl_headerTimeout) = H; *(i64*)(transport + OFF_TransportImpl_bodyTimeout) = B;
  ((sp_t*)(transport + OFF_TransportImpl_handler))->p = handler_obj;
  now_last = -((i64)1 << 62);
  for (int i = 0; i < NP; i++) {
    node[i].fd = 10 + i; node[i].peer.p = peerobj[i]; node[i].peer.c = 0; stepobj[i].vptr = step_vt;
    VP_IN(i64, t0, "start"); __CPROVER_assume(t0 >= 0 && t0 < ((i64)1 << 61)); start[i] = t0; *(i64*)(parser[i] + OFF_RequestParser_time) = t0;
    if (t0 > now_last) now_last = t0;                          /* the clock is not before any request's start */
    VP_IN(u8, ph, "phase"); __CPROVER_assume(ph <= 3);
    if (ph == 3) { VP_IN(u64, other, "otherid"); __CPROVER_assume(other != STEPID_RequestLine && other != STEPID_Headers && other != STEPID_Body); stepid[i] = other; }
    else stepid[i] = ph == 0 ? STEPID_RequestLine : ph == 1 ? STEPID_Headers : STEPID_Body; }
  __CPROVER_assume(now_last < ((i64)1 << 61));
  _ZN8Pistache4Http13TransportImpl14checkIdlePeersEv(transport);
  __CPROVER_assert(!vp_take_exception(), "checkIdlePeers does not throw");
  __CPROVER_assert(now_calls == np, "the clock is read once per peer");
  for (int i = 0; i < NP; i++) if (i < np) {
    i64 el = now_at[i] - start[i];
    int head = stepid[i] == STEPID_RequestLine || stepid[i] == STEPID_Headers;
    int known = head || stepid[i] == STEPID_Body;
    /* ms -> ns written exactly as the implementation's chrono conversion (one multiplier circuit per time-out, shared by structural hashing) */
    i64 Hns = (i64)((u64)H * (u64)1000000ULL), Bns = (i64)((u64)B * (u64)1000000ULL);
    int expect = known && ((head && Hns < el) || Bns < el);
    __CPROVER_assert(sent[i] == expect, "408 is sent iff the head is incomplete past the header time-out or the request is incomplete past the body time-out");
    __CPROVER_assert(!sent[i] || code_[i] == 408, "the time-out response is 408 Request Timeout");
    __CPROVER_assert(writers[i] == sent[i] && thens[i] == sent[i], "exactly one response per timed-out peer per scan, with the peer closed afterwards");
  } else __CPROVER_assert(sent[i] == 0 && writers[i] == 0, "nothing is sent to peers that do not exist");
  VP_END("witness: end of harness reached");
  return 0;
}
