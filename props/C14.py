# C14 -- size limits and read time-outs are enforced exactly (two decision kernels)
HTTP = '/repo/src/common/http.cc'
EP = '/repo/src/server/endpoint.cc'
OFFSETS = ['harness/offsets_http.cc', 'harness/offsets_endpoint.cc']
APPLY = ['_ZN8Pistache4Http7Private11HeadersStep5applyERNS_12StreamCursorE', '_ZN8Pistache4Http7Private15RequestLineStep5applyERNS_12StreamCursorE',
         '_ZN8Pistache4Http7Private16ResponseLineStep5applyERNS_12StreamCursorE', '_ZN8Pistache4Http7Private8BodyStep5applyERNS_12StreamCursorE']
UNITS = {
  'parser': dict(src=HTTP, mode='inl', roots=['_ZN8Pistache4Http7Private10ParserBase4feedEPKcm', '_ZN8Pistache4Http7Private10ParserBase5resetEv', '_ZN8Pistache4Http7Private10ParserBase5parseEv'], stubs=APPLY,
    globals=['_ZTVN8Pistache4Http7Private8BodyStepE', '_ZTVN8Pistache4Http7Private11HeadersStepE', '_ZTVN8Pistache4Http7Private15RequestLineStepE']),
  'idle': dict(src=EP, mode='sel', roots=['_ZN8Pistache4Http13TransportImpl14checkIdlePeersEv'],
    stubs=['_ZN8Pistache4Http14ResponseWriterD2Ev', '_ZN8Pistache5Async7PromiseIvED2Ev', '_ZN8Pistache5Async7PromiseIlED2Ev'],
    stubs_re=r'PromiseIlE4thenIZNS_4Http13TransportImpl14checkIdlePeersEv', alias={r'PromiseIlE4thenIZNS_4Http13TransportImpl14checkIdlePeersEv': 'vp_then_stub'}),
}
HARNESSES = [
  dict(name='idle_peers_1', units=['idle'], file='c14_idle.c', defs={'NP': 1, 'TBITS': 12}, unwind=4, thorough=dict(defs={'NP': 1, 'TBITS': 14}), timeout=900,
       bound='0..1 peers; any start time (ns, < 2^61), any later instant, header/body time-outs every value in 0..4095 ms (thorough 0..16383 ms), any step id',
       desc='(b) 408 iff (head incomplete and elapsed > header time-out) or elapsed > body time-out; one response per timed-out peer; peer closed'),
  dict(name='idle_peers_2', units=['idle'], file='c14_idle.c', defs={'NP': 2, 'TBITS': 10}, unwind=5, thorough=dict(defs={'NP': 2, 'TBITS': 12}), timeout=900,
       bound='0..2 peers; any start times, non-decreasing clock, header/body time-outs every value in 0..1023 ms (thorough 0..4095 ms), any step ids',
       desc='(b) as idle_peers_1 for two peers in one scan: each peer is judged on its own start time and phase'),
]
for (s_, x_, l1, l2) in [(s_, x_, l1, l2) for s_ in (0, 1, 3) for x_ in (0, 1) for l1 in (0, 1, 2) for l2 in (1, 3)]:
    HARNESSES.append(dict(name='feed_s%d_x%d_l%d_%d' % (s_, x_, l1, l2), units=['parser'], file='c04_parser.c',
       defs={'H_FEED': None, 'S': 4, 'SFIX': s_, 'XFIX': x_, 'L1FIX': l1, 'L2FIX': l2}, unwind=8, mem_est=(10 if l2 == 3 else 3), memgb=16, witness=(s_ == 1 and x_ == 0 and l1 == 2 and l2 == 1),
       tiers=('quick', 'thorough') if (x_ == 0 and l2 == 1) or (s_ == 3 and l1 == 2) else ('thorough',),
       bound='buffer of %d bytes with %d spare capacity, any read offset, any maxSize (64-bit), feeds of %d then %d bytes, all contents' % (s_, x_, l1, l2),
       desc='(a) ArrayStreamBuf::feed via ParserBase::feed: a feed is refused iff accumulated + len > maxSize (any 64-bit maxSize), a refused feed changes nothing, an accepted one appends in order'))
# (c) the 413 path: Handler::onInput (harness and unit shared with C04)
import importlib.util as _iu, os as _os
_sp = _iu.spec_from_file_location('prop_C04_for_C14', _os.path.join(_os.path.dirname(_os.path.abspath(__file__)), 'C04.py')); _c04 = _iu.module_from_spec(_sp); _sp.loader.exec_module(_c04)
UNITS['oninput'] = _c04.UNITS['oninput']
HARNESSES += [dict(h, desc='(c) a request whose bytes the parser refuses (size limit) is answered 413 exactly once and is never handed to the handler; a request within the limit is never refused by onInput itself') for h in _c04.HARNESSES if h['name'] == 'on_input']
ASSUMPTIONS = ['(c) Handler::onInput harness: as listed for C04 (parser, response writer and user handler are recording stubs)', '(b) sel mode: peers map, idle-peer vector, shared/weak pointers are ghost models; Handler::getParser / ParserBase::step / Step::id return the symbolic per-peer values; ResponseWriter, send() and Promise::then() are recording stubs',
               '(b) steady_clock::now() is an arbitrary non-decreasing instant >= every start time; time-outs are bounded as stated per harness (the ms->ns multiplication makes the SAT query exponential in the time-out width; larger time-outs take the same instructions and cannot overflow below 2^43 ms)',
               '(a) as C01 lemma L1 (feed harness): exact-size vector storage, any maxSize']
OUTSIDE = ['the 500 ms timer tick and how long after expiry the 408 appears', 'the 413 response path through Handler::onInput', 'propagation of the options to every worker (plain setters)', 'closing of the socket by removePeer (C08)']
