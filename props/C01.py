# C01 -- HTTP message parsing does not depend on how the bytes are segmented (kernel lemmas, see DESIGN.md section 4)
import glob
HTTP = '/repo/src/common/http.cc'
ALL = sorted(glob.glob('/repo/src/common/*.cc') + glob.glob('/repo/src/server/*.cc') + glob.glob('/repo/src/client/*.cc'))
OFFSETS = ['harness/offsets_http.cc']
PCL = '_ZN8Pistache4Http7Private8BodyStep18parseContentLengthERNS_12StreamCursorERKSt10shared_ptrINS0_6Header13ContentLengthEE'
PTE = '_ZN8Pistache4Http7Private8BodyStep21parseTransferEncodingERNS_12StreamCursorERKSt10shared_ptrINS0_6Header16TransferEncodingEE'
CPARSE = '_ZN8Pistache4Http7Private8BodyStep5Chunk5parseERNS_12StreamCursorE'
RAISE = '_ZN8Pistache4Http7Private4Step5raiseEPKcNS0_4CodeE'
UNITS = {
  'body': dict(src=HTTP, mode='inl', roots=[PCL, PTE], stubs=[RAISE], noinline=[CPARSE]),
}
APPLY = ['_ZN8Pistache4Http7Private11HeadersStep5applyERNS_12StreamCursorE', '_ZN8Pistache4Http7Private15RequestLineStep5applyERNS_12StreamCursorE',
         '_ZN8Pistache4Http7Private16ResponseLineStep5applyERNS_12StreamCursorE', '_ZN8Pistache4Http7Private8BodyStep5applyERNS_12StreamCursorE']
UNITS['parser'] = dict(src=HTTP, mode='inl', roots=['_ZN8Pistache4Http7Private10ParserBase4feedEPKcm', '_ZN8Pistache4Http7Private10ParserBase5resetEv', '_ZN8Pistache4Http7Private10ParserBase5parseEv'], stubs=APPLY,
    globals=['_ZTVN8Pistache4Http7Private8BodyStepE', '_ZTVN8Pistache4Http7Private11HeadersStepE', '_ZTVN8Pistache4Http7Private15RequestLineStepE'])
QADD = '_ZN8Pistache4Http3Uri5Query3addENSt7__cxx1112basic_stringIcSt11char_traitsIcESaIcEEES8_'
REQAPPLY = '_ZN8Pistache4Http7Private15RequestLineStep5applyERNS_12StreamCursorE'
RESPAPPLY = '_ZN8Pistache4Http7Private16ResponseLineStep5applyERNS_12StreamCursorE'
UNITS['reqline'] = dict(src=HTTP, mode='sel', roots=[REQAPPLY], stubs=[RAISE, QADD])
UNITS['respline'] = dict(src=HTTP, mode='sel', roots=[RESPAPPLY], stubs=[RAISE])
HDRAPPLY = '_ZN8Pistache4Http7Private11HeadersStep5applyERNS_12StreamCursorE'
UNITS['headers'] = dict(src=HTTP, mode='sel', roots=[HDRAPPLY], stubs=[RAISE])
REAL = dict(real=ALL, shim=['harness/shim_guard.cc'])
TV = dict(real=ALL + ['harness/shim_guard.cc'], n=300)
HARNESSES = [
  dict(name='body_cl', units=['body'], file='c01_body.c', defs={'N': 6, 'D': 2, 'REFERENCE': None, 'VP_DISPATCH_ru8p_u8p': None}, unwind=13,
       thorough=dict(defs={'N': 10, 'D': 3, 'REFERENCE': None, 'VP_DISPATCH_ru8p_u8p': None}, unwind=17),
       bound='body section n <= 6 bytes (thorough 10), every Content-Length value 0..2^64-1, every cut k <= n (thorough: every pair of cuts)',
       desc='L5 Content-Length: segmented run == one-shot run == reference (first cl bytes); counters reset at Done; reserve within budget', replay=REAL, tv=TV),
]
HARNESSES += [
  dict(name='parse_dispatch', units=['parser'], file='c04_parser.c', defs={'H_PARSE': None, 'S': 2}, unwind=6,
       bound='any start step, any script of 4 step results', desc='L6: step index advances exactly on Next; parse returns the first Again/Done'),
]
for (s_, x_, l1, l2) in [(s_, x_, l1, l2) for s_ in (0, 1, 3) for x_ in (0, 1) for l1 in (0, 1, 2) for l2 in (1, 3)]:
    HARNESSES.append(dict(name='feed_s%d_x%d_l%d_%d' % (s_, x_, l1, l2), units=['parser'], file='c04_parser.c',
       defs={'H_FEED': None, 'S': 4, 'SFIX': s_, 'XFIX': x_, 'L1FIX': l1, 'L2FIX': l2}, unwind=8, mem_est=(10 if l2 == 3 else 3), memgb=16, witness=(s_ == 1 and x_ == 0 and l1 == 2 and l2 == 1),
       tiers=('quick', 'thorough') if (x_ == 0 and l2 == 1) or (s_ == 3 and l1 == 2) else ('thorough',),
       bound='buffer of %d bytes with %d spare capacity, any read offset, any maxSize (64-bit), feeds of %d then %d bytes, all contents' % (s_, x_, l1, l2),
       desc='L1/C14a: feed re-bases the get area, preserves read offset and earlier bytes, appends in order; refused iff over the limit and then changes nothing'))
def line_inst(kind, n, k, tiers, witness, wq=0, prefix=None):
    d = {'NN': n, 'K': k, 'WQ': wq}
    if kind == 'resp': d['H_RESP'] = None
    if prefix: d['ASSUME_PREFIX'] = '"\\"%s\\""' % prefix
    return dict(name='%sline_n%d_k%d%s' % (kind, n, k, '_p' if prefix else ''), units=['reqline' if kind == 'req' else 'respline'], file='c01_lines.c', defs=d, unwind=n + 3,
                tiers=tiers, witness=witness, timeout=1200,
                bound='every %s line prefix of exactly %d bytes%s, cut after %d bytes' % ('request' if kind == 'req' else 'status', n, ' starting with "%s"' % prefix if prefix else '', k),
                desc='L2 two-run: prefix run (Again => reverted, effects prefix; Next => same Next; error => same error) vs whole run; all reads inside the exact-size blocks')
for n in (8, 9):
    for k in range(1, n):
        HARNESSES.append(line_inst('req', n, k, ('quick', 'thorough') if n == 9 or k in (3, 6) else ('thorough',), witness=(k == 5), wq=1 if n == 9 else 0))
for k in range(1, 13):
    HARNESSES.append(line_inst('resp', 13, k, ('quick', 'thorough') if k in (2, 7, 8, 9, 10, 11, 12) else ('thorough',), witness=(k == 10)))
def hdr_inst(n, k, tiers, witness, we=1):
    return dict(name='headers_n%d_k%d' % (n, k), units=['headers'], file='c01_headers.c', defs={'NN': n, 'K': k, 'WE': we, 'VP_DISPATCH_rvoid_u8p_u8p_u64': None}, unwind=n + 2, outer_unwind=n // 4 + 2,
                tiers=tiers, witness=witness, timeout=1500, mem_est=9,
                bound='every header-section prefix of exactly %d bytes, cut after %d bytes; any registry predicate (one symbolic registered name), any deterministic rejection by the value parsers' % (n, k),
                desc='L2 two-run for HeadersStep + C16(b): names/values handed to addRaw/parseRaw/cookie parsers are exactly the sent ranges')
for k in range(1, 12):
    HARNESSES.append(hdr_inst(12, k, ('thorough',), witness=(k == 7), we=2))
for k in range(1, 8):
    HARNESSES.append(hdr_inst(8, k, ('quick', 'thorough'), witness=(k == 4), we=1))
HARNESSES.append(dict(name='chunk_step', units=['body'], file='c01_chunkstep.c', defs={'N': 4, 'VP_DISPATCH_ru8p_u8p': None}, unwind=8,
    bound='chunk in progress with ANY size in 1..2^63-1 and any progress 0..size (inductive step), <= 4 delivered bytes at any offset',
    desc='Chunk::parse step from an arbitrary mid-chunk state: no overflow, valid advance counts, appends inside the delivered bytes, exact progress'))
def chunk_inst(n, k1, k2, tiers, witness):
    d = {'N': n, 'NFIX': n, 'K1FIX': k1, 'K2FIX': k2, 'D': 2 if k1 == k2 else 3, 'CHUNKED': None, 'REFERENCE': None, 'VP_DISPATCH_ru8p_u8p': None}
    return dict(name='chunk_n%d_k%d%s' % (n, k1, '' if k1 == k2 else '_%d' % k2), units=['body'], file='c01_body.c', defs=d, unwind=n + 3,
                unwindset={PTE + '.0': 3 + n // 6}, tiers=tiers, witness=witness, timeout=900,
                bound='every chunked body section of exactly %d bytes (all 256^%d contents), delivered as %s' % (n, n, '%d + %d bytes' % (k1, n - k1) if k1 == k2 else '%d + %d + %d bytes' % (k1, k2 - k1, n - k2)),
                desc='L5 chunked: segmented run == one-shot run; == RFC 7230 4.1 reference decoder on well-formed input; no early completion; counters reset; termination',
                replay=REAL, tv=TV if witness else None)
for n in range(5, 14):      # a chunked body section needs at least the 5 bytes of '0 CRLF CRLF' to complete: shorter sections cannot reach the end of the harness
    for k in range(1, n):
        quick = n in (8, 11)
        HARNESSES.append(chunk_inst(n, k, k, ('quick', 'thorough') if quick else ('thorough',), witness=(k == n // 2)))
for (k1, k2) in [(2, 5), (3, 4), (4, 9), (5, 6), (1, 10), (6, 8), (3, 7), (8, 9), (9, 10)]:
    HARNESSES.append(chunk_inst(11, k1, k2, ('thorough',), witness=False))
ASSUMPTIONS = [
  'encoding: clang++-14 -O1 IR of src/common/http.cc (BodyStep::parseContentLength/parseTransferEncoding/Chunk::parse and inlined cursor code) translated to C by ir2c',
  'stub: Step::raise(msg, code) == throw HttpError(code, msg) (message text not modelled)',
  'model: std::string::_M_append on message->body_ = ghost copy + check that the range lies inside the delivered bytes; reserve(n) records max n',
  'model: strtol as a byte-exact scanner (models/libc.h); std::runtime_error constructor records nothing but a vptr for what()',
  'segmentation model: each delivery is an exact-size heap block holding the bytes delivered so far with the read offset preserved (what ArrayStreamBuf::feed produces; feed itself is lemma L1)',
  'Chunk::alreadyAppendedChunkBytes is not initialised by the constructor: treated as arbitrary',
]
OUTSIDE = ['composition of the lemmas into the end-to-end statement (argued in DESIGN.md, not solver-checked)', 'bodies longer than the stated bounds', 'TLS']
