# C10 -- routing invokes the handler that the route table prescribes
ROUTER = '/repo/src/server/router.cc'
OFFSETS = ['harness/offsets_router.cc', 'harness/offsets_http.cc']
FIND_ = None
FIND = '_ZNK8Pistache4Rest15SegmentTreeNode9findRouteERKSt17basic_string_viewIcSt11char_traitsIcEERSt6vectorINS0_10TypedParamESaIS9_EESC_'
ROUTE = '_ZN8Pistache4Rest6Router5routeERKNS_4Http7RequestENS2_14ResponseWriterE'
RSTUBS = ['_ZN8Pistache4Http7MessageC2ERKS1_', '_ZN8Pistache4Http7MessageD2Ev', '_ZN8Pistache4Http14ResponseWriterD2Ev', '_ZN8Pistache4Rest7RequestD2Ev', '_ZN8Pistache4Http7RequestD2Ev',
          '_ZN8Pistache4Rest15SegmentTreeNode16sanitizeResourceERKNSt7__cxx1112basic_stringIcSt11char_traitsIcESaIcEEE', '_ZNK8Pistache4Rest6Router21invokeNotFoundHandlerERKNS_4Http7RequestENS2_14ResponseWriterE',
          '_ZNK8Pistache4Rest5Route13invokeHandlerIJNS0_7RequestENS_4Http14ResponseWriterEEEEvDpOT_', '_ZN8Pistache5Async7PromiseIlED2Ev', '_ZN8Pistache5Async7PromiseIlED0Ev']
ADD = '_ZN8Pistache4Rest15SegmentTreeNode8addRouteERKSt17basic_string_viewIcSt11char_traitsIcEERKSt8functionIFNS0_5Route6ResultENS0_7RequestENS_4Http14ResponseWriterEEERKSt10shared_ptrIcE'
REM = '_ZN8Pistache4Rest15SegmentTreeNode11removeRouteERKSt17basic_string_viewIcSt11char_traitsIcEE'
UNITS = {'rem': dict(src=ROUTER, mode='sel', roots=[REM], selfcall={REM: 'vp_rec_removeRoute'}),
         'add': dict(src=ROUTER, mode='sel', roots=[ADD], selfcall={ADD: 'vp_rec_addRoute'}),
         'route': dict(src=ROUTER, mode='sel', roots=[ROUTE], stubs=RSTUBS, selfcall={FIND: 'vp_rec_findRoute'}),
         'find': dict(src=ROUTER, mode='sel', roots=[FIND], selfcall={FIND: 'vp_rec_findRoute'})}
HARNESSES = [
  dict(name='remove_step', units=['rem'], file='c10_remove.c', defs={}, unwind=5, hunwind=34, timeout=900,
       bound='ONE level of removeRoute on an arbitrary node: 0..1 fixed / parameter / optional child (keys of 1..2 bytes), wildcard child or not, route or not; pattern empty or a first segment of 1..3 arbitrary bytes with or without a lower pattern; the child reports itself empty or not (induction hypothesis)',
       desc='removeRoute step: the right child is asked about exactly the lower pattern and dropped iff it became empty; a missing child is refused; no sibling and not the node route is touched; the result says whether THIS node is now empty'),
  dict(name='add_step', units=['add'], file='c10_add.c', defs={}, unwind=5, hunwind=34, timeout=900,
       bound='ONE level of addRoute on an arbitrary node: 0..1 existing fixed / parameter / optional child (keys of 1..2 bytes), wildcard child or not, route or not; pattern empty or a first segment of 1..3 arbitrary bytes with or without a lower pattern of 0..2 bytes',
       desc='addRoute step with the real getSegmentType: segment kind, refusals, reuse or single creation of the child under exactly the segment key, lower pattern and handler passed on, route installed or duplicate refused'),
  dict(name='router_route', units=['route'], file='c10_router.c', defs={'NPAR': 1, 'NT': 2, 'NMW': 1}, unwind=4, hunwind=34, timeout=1500,
       thorough=dict(defs={'NPAR': 1, 'NT': 3, 'NMW': 2}, unwind=5, timeout=3000),
       bound='route table of 0..2 (thorough 3) methods, each tree a root node of the find_step shape (children answer arbitrarily); normalised path empty or one segment of 1..2 bytes; any request method; 0..1 (thorough 2) middlewares and custom handlers with every outcome; not-found handler installed or not',
       desc='Router::route: exactly one of {middleware stop, own-method route handler, custom handler, 405 with the exact Allow list, not-found handler, 404}, once; status says which'),
  dict(name='find_step', units=['find'], file='c10_route.c', defs={'NPAR': 2}, unwind=4, hunwind=34, timeout=1500,
       bound='ONE level of findRoute on an arbitrary node: <= 2 fixed, <= 2 parameter, <= 1 optional, optional splat child, optional route; keys/names/segment of 1..2 arbitrary bytes; lower path of <= 3 arbitrary bytes; <= 2 earlier bindings; children answer arbitrarily (induction hypothesis)',
       desc='findRoute step == reference: first succeeding alternative in the order fixed > parameter > optional > wildcard; exact bindings; failed lookups leave bindings untouched'),
]
ASSUMPTIONS = [
  'sel mode: SegmentTreeNode::findRoute translated; string_view, unordered_map<string_view, shared_ptr<Node>>, vector<TypedParam>, shared_ptr, tuple are ghost models at method boundaries',
  'recursive calls are replaced by the induction hypothesis (an arbitrary but fixed outcome per child that obeys the contract asserted for the node itself); well-founded because every call descends in the finite tree',
  'iteration order of an unordered_map = entry order of the model; the reference shares it (precedence among siblings of one kind is unspecified by the property)',
  'keys, names and the current segment are 1..2 bytes',
]
OUTSIDE = ['normalisation of duplicate/leading/trailing slashes (std::regex_replace in sanitizeResource): libstdc++ regex cannot be encoded',
           'more than 2 children of one kind per node; keys longer than 2 bytes']
