# C10 -- routing invokes the handler that the route table prescribes
ROUTER = '/repo/src/server/router.cc'
OFFSETS = ['harness/offsets_router.cc']
FIND = '_ZNK8Pistache4Rest15SegmentTreeNode9findRouteERKSt17basic_string_viewIcSt11char_traitsIcEERSt6vectorINS0_10TypedParamESaIS9_EESC_'
UNITS = {'find': dict(src=ROUTER, mode='sel', roots=[FIND])}
HARNESSES = []
def fr(nn, ns, npar, tiers, witness=False, timeout=1800):
    return dict(name='find_n%d_s%d_p%d' % (nn, ns, npar), units=['find'], file='c10_route.c', defs={'NNODES': nn, 'NSEG': ns, 'NPAR': npar}, unwind=max(nn, 3), hunwind=10,
                tiers=tiers, witness=witness, timeout=timeout, memgb=14,
                bound='every tree over a pool of %d nodes (<= 2 fixed children a/b, <= %d parameter children, <= 1 optional child, optional splat child, optional route per node; arbitrary forward links) x every path of exactly %d one-byte segments over {a,b}' % (nn, npar, ns),
                desc='findRoute == reference matcher: same route (or none), same parameter and wildcard bindings')
HARNESSES += [fr(3, 0, 1, ('quick', 'thorough')), fr(3, 1, 1, ('quick', 'thorough'), True), fr(3, 2, 1, ('quick', 'thorough'), True), fr(4, 2, 1, ('quick', 'thorough')),
              fr(4, 3, 1, ('thorough',), True), fr(4, 2, 2, ('thorough',)), fr(5, 3, 1, ('thorough',)), fr(5, 4, 1, ('thorough',))]
ASSUMPTIONS = [
  'sel mode: SegmentTreeNode::findRoute translated; string_view, unordered_map<string_view, shared_ptr<Node>>, vector<TypedParam>, shared_ptr, tuple are ghost models at method boundaries',
  'iteration order of an unordered_map = entry order of the model; the reference matcher shares it (precedence among siblings of one kind is unspecified by the property)',
  'segments and keys are single bytes over {a,b}; parameter names are arbitrary bytes',
]
OUTSIDE = ['normalisation of duplicate/leading/trailing slashes (std::regex_replace in sanitizeResource): libstdc++ regex cannot be encoded',
           'longer segments, deeper trees than the stated bounds']
