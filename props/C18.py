# C18 -- media types survive write/parse; invalid ones are rejected cleanly
MIME = '/repo/src/common/mime.cc'
OFFSETS = ['harness/offsets_http.cc']
PARSERAW = '_ZN8Pistache4Http4Mime9MediaType8parseRawEPKcm'
TOSTRING = '_ZNK8Pistache4Http4Mime9MediaType8toStringB5cxx11Ev'
UNITS = {'mime': dict(src=MIME, mode='sel', roots=[PARSERAW, TOSTRING])}
MS = '_ZN8Pistache12match_stringEPKcmRNS_12StreamCursorENS_15CaseSensitivityE'
US = {MS + '.0': 25, 'gs_same.0': 17, 'gmap_insert.0': 5, 'gs_append.0': 65, 'gs_append.1': 65, '_ZN8Pistache12match_doubleEPdRNS_12StreamCursorE.0': 25, 'gs_from_cstr_copy.0': 10, 'gs_from_cstr_copy.1': 80}
HARNESSES = []
for n in range(0, 13):
    HARNESSES.append(dict(name='parse_n%d' % n, units=['mime'], file='c18_mime.c', defs={'H_SAFE': None, 'NN': n, 'CC_DMAX': n + 1}, unwind=n + 3, unwindset=dict(US, **{'_ZN8Pistache12match_doubleEPdRNS_12StreamCursorE.0': n + 3, PARSERAW + '.0': max(2, n - 1)}),
        tiers=('quick', 'thorough') if n in (0, 3, 8) else ('thorough',), witness=(n in (8, 11)), timeout=1500,
        bound='every text of exactly %d bytes (all 256^%d contents) in an exact-size heap block' % (n, n),
        desc='MediaType::parseRaw: memory safety, termination, only HttpError(415); raw text kept exactly; toString() == text; top-level type per table'))
NT, NS, NF = 8, 17, 7   # table sizes of mime.h (the harness reads the tables themselves from the generated offsets.h)
def rt(q, np, top, sub, suf, tiers, witness=False):
    d = {'H_RT': None, 'WITHQ': q, 'NPARAM': np, 'TOPFIX': top, 'SUBFIX': sub, 'SUFFIX': suf}
    return dict(name='rt_q%d_p%d_t%d_s%d_f%d' % (q, np, top, sub, suf), units=['mime'], file='c18_mime.c', defs=d, unwind=30, unwindset=dict(US, **{PARSERAW + '.0': 2 + 3 * (q + np)}), tiers=tiers, witness=witness, timeout=2400,
        bound='top-level type #%d, subtype #%d, %s; %s; %s' % (top, sub, 'no suffix' if suf == NF else 'suffix #%d' % suf,
              'every quality 0..100' if q else 'no quality', 'one parameter, name/value of 1..2 token octets (all contents)' if np else 'no parameter'),
        desc='MediaType::toString -> parseRaw round trip: type, subtype, suffix, quality and parameters equal')
for t_ in range(NT):
    for s_ in range(NS):
        for f_ in range(NF + 1):
            quick = (t_ == 5 and s_ in (7, 8, 9, 10, 11) and f_ == NF) or (s_ == 8 and f_ == NF) or (t_ == 1 and s_ == 2) or (t_ == 5 and s_ == 4 and f_ in (0, 6))
            thorough = f_ == NF or (t_, s_) in ((5, 8), (1, 1), (5, 4), (0, 0), (5, 9), (5, 10)) or (t_ == 5 and f_ == 0)
            if quick or thorough:
                HARNESSES.append(rt(0, 0, t_, s_, f_, ('quick', 'thorough') if quick else ('thorough',), witness=(t_ == 5 and s_ == 8 and f_ == NF)))
for (t_, s_, f_) in [(1, 1, NF), (5, 8, 5), (0, 0, NF), (5, 11, NF), (5, 9, 0)]:
    HARNESSES.append(rt(1, 0, t_, s_, f_, ('quick', 'thorough') if t_ in (1, 0) else ('thorough',), witness=(t_ == 1)))
    HARNESSES.append(rt(0, 1, t_, s_, f_, ('quick', 'thorough') if t_ == 1 else ('thorough',), witness=(t_ == 1)))
    HARNESSES.append(rt(1, 1, t_, s_, f_, ('deep',)))   # quality AND parameter together: > 10 GB per query (measured: stopped by the memory limit), kept out of the registered tiers
ASSUMPTIONS = [
  'sel mode: mime.cc translated; StreamCursor primitives are the contract stubs of models/cursor_contract.h (proven for the real code by the C03 cursor kernels)',
  'std::string building (reserve, +=, +) copies into a ghost arena; strings constructed from (ptr,len) alias their source bytes',
  'unordered_map<string,string> params: association array with unique keys (byte comparison)',
  'strtod model: exact for numerals of the form d.dd (value = integer part + hundredths/100.0, the correctly rounded quotient), otherwise an arbitrary double',
  'snprintf("q=%.1f"/"q=%.2f", v/100.0) prints the decimal expansion of v hundredths (libc formatting is outside); round() = half away from zero',
  'HttpError constructor records the status code (message text not modelled)',
]
OUTSIDE = ['MediaType::fromFile', 'texts longer than the stated bounds; parameter strings longer than 2 octets', 'vendor / extension subtypes and suffixes in the built direction (they have no string form in toString)']
