# C05 -- emitted messages are well-formed HTTP/1.1 with exact framing (buffer and sequencing kernels)
STREAM = '/repo/src/common/stream.cc'
OFFSETS = ['harness/offsets_http.cc']
UNITS = {'dynbuf': dict(src=STREAM, mode='inl', roots=['_ZN8Pistache16DynamicStreamBufC2Emm', '_ZN8Pistache16DynamicStreamBuf8overflowEi', '_ZN8Pistache16DynamicStreamBuf5clearEv'])}
HARNESSES = []
for s0 in (0, 1, 3):
    for mx in sorted({s0, s0 + 1, 5, 6, 8}):
        if mx < s0: continue
        for (l1, l2) in ((1, 1), (3, 4), (6, 3), (0, 9)):
            quick = (l1, l2) in ((3, 4), (6, 3)) and mx in (5, 6, 8, s0)
            HARNESSES.append(dict(name='dynbuf_s%d_m%d_w%d_%d' % (s0, mx, l1, l2), units=['dynbuf'], file='c05_dynbuf.c', defs={'S0': s0, 'MAXSZ': mx, 'L1': l1, 'L2': l2, 'VP_ALLOC_FIXED': 16, 'VP_MEMMAX': 16}, unwind=max(mx, l1 + l2) + 4,
                tiers=('quick', 'thorough') if quick else ('thorough',), witness=(l1 == 3 and mx in (5, 8)),
                bound='initial size %d, maximum %d, writes of %d then %d bytes (all contents)' % (s0, mx, l1, l2),
                desc='(a) DynamicStreamBuf: accepted == min(len, max - used), contents exact across growth boundaries, never beyond max, clear() rewinds'))
ASSUMPTIONS = ['writes are byte-wise puts: store into the put area or call the real overflow() when it is full (what sputc does; xsputn bulk copies are libstdc++)',
               'heap blocks are fixed-size (16 bytes, requests asserted to fit): sizes are checked functionally (storage size, put pointer, contents), not by CBMC bounds checks',
               'std::vector<char> growth (resize/_M_default_append) is the real inlined libstdc++ code over exact-size malloc blocks; allocation failure out of scope']
OUTSIDE = ['numeric/locale formatting of std::ostream (num_put)', 'the client request writer (std::stringstream)', 'ResponseWriter::putOnWire / ResponseStream sequencing (planned, sel mode)']
