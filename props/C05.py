# C05 -- emitted messages are well-formed HTTP/1.1 with exact framing (buffer and sequencing kernels)
STREAM = '/repo/src/common/stream.cc'
OFFSETS = ['harness/offsets_http.cc']
UNITS = {'dynbuf': dict(src=STREAM, mode='inl', roots=['_ZN8Pistache16DynamicStreamBufC2Emm', '_ZN8Pistache16DynamicStreamBuf8overflowEi', '_ZN8Pistache16DynamicStreamBuf5clearEv'])}
HTTP = '/repo/src/common/http.cc'
POW = '_ZN8Pistache4Http14ResponseWriter9putOnWireEPKcm'
UNITS['pow'] = dict(src=HTTP, mode='sel', roots=[POW], stubs_re=r'^_ZN8Pistache3Tcp9Transport10asyncWriteI|^_ZN8Pistache5Async7PromiseIlE4thenI|^_ZN8Pistache5Async7PromiseIlE8rejectedI|^_ZNK8Pistache16DynamicStreamBuf6bufferEv|^_ZN8Pistache4Http7Timeout6disarmEv|^_ZNK8Pistache4Http14ResponseWriter4peerEv|^_ZN8Pistache5Async7PromiseIlED[02]Ev|^_ZN8Pistache9RawBufferD2Ev|^_ZN8Pistache5ErrorC[12]E|^_ZN8Pistache4Http6CookieC2ERKS1_|^_ZN8Pistache4Http6CookieD2Ev')
_RS = '_ZN8Pistache4Http14ResponseStream'
UNITS['rs'] = dict(src=HTTP, mode='sel', roots=[_RS + '5writeEPKcl', _RS + '5flushEv', _RS + '4endsEv'], stubs_re=r'^_ZN8Pistache3Tcp9Transport10asyncWriteI|^_ZNK8Pistache16DynamicStreamBuf6bufferEv|^_ZN8Pistache16DynamicStreamBuf5clearEv|^_ZN8Pistache4Http7Timeout6disarmEv|^_ZNK8Pistache4Http14ResponseStream4peerEv|^_ZN8Pistache5Async7PromiseIlED[02]Ev|^_ZN8Pistache9RawBufferD2Ev|^_ZN8Pistache5ErrorC[12]E|^_ZN8Pistache3Tcp9Transport5flushEv')
HARNESSES = [dict(name='stream_chunks', units=['rs'], file='c05_stream.c', defs={'NW': 2}, unwind=5, hunwind=30, timeout=1200, fs=64,
    bound='2 writes of 0..3 bytes, an optional flush after each, then ends(); EVERY maximum response size 0..40',
    desc="(b') ResponseStream: per write <hex size> CRLF <data> CRLF, closed by 0 CRLF CRLF, all of it reaching the transport; a chunk cut short by the size limit is never followed by a successful ends()")]
_RSCTOR = _RS + 'C2EONS0_7MessageESt8weak_ptrINS_3Tcp4PeerEEPNS5_9TransportENS0_7TimeoutEmm'
UNITS['rsc'] = dict(src=HTTP, mode='sel', roots=[_RSCTOR], stubs_re=r'^_ZN8Pistache16DynamicStreamBufC[12]E|^_ZN8Pistache16DynamicStreamBufD[12]E|^_ZN8Pistache4Http7MessageC[12]EOS1_|^_ZN8Pistache4Http7MessageD[12]Ev|^_ZN8Pistache4Http7TimeoutC[12]EOS1_|^_ZN8Pistache4Http7TimeoutD[12]Ev|^_ZN8Pistache5ErrorC[12]E|^_ZN8Pistache4Http6CookieC2ERKS1_|^_ZN8Pistache4Http6CookieD2Ev|^_ZN8Pistache4Http6Header14EncodingHeaderC[12]E|^_ZN8Pistache4Http6Header6HeaderD2Ev')
def rsc_inst(nh, j0, j1, tiers, witness=False, te=False):
    return dict(name='stream_head_h%d_j%d%d%s' % (nh, j0, j1, '_te' if te else ''), units=['rsc'], file='c05_streamctor.c', defs={**({'HDR_TE': 1} if te else {}), 'NHDRFIX': nh, 'JAR0': j0, 'JAR1': j1, 'VP_DISPATCH_ru8p_u8p': None, 'VP_DISPATCH_CUSTOM_ru8p_u8p': None, 'VP_DISPATCH_rvoid_u8p_u8p': None},
        unwind=5, hunwind=50, timeout=1500, fs=64, tiers=tiers, witness=witness,
        bound='%d typed headers, cookie jar with %s; any version/status code, opaque pieces of arbitrary fixed lengths, EVERY maximum response size 0..200' % (nh, 'no cookie' if not j0 else ('one name with %d value(s)' % j0 if not j1 else 'two names with %d and %d value(s)' % (j0, j1))),
        desc="(b'') ResponseStream constructor: the head of a streamed response is exactly status line, each cookie once, each header once, Transfer-Encoding: chunked, blank line when it fits; if any piece does not fit the constructor throws (no cut head is left in the buffer for a later flush)")
for (nh_, j0_, j1_) in ((0, 0, 0), (1, 1, 0), (2, 2, 1), (1, 1, 2), (2, 0, 0), (0, 2, 2)):
    HARNESSES.append(rsc_inst(nh_, j0_, j1_, ('quick', 'thorough') if (nh_, j0_, j1_) in ((1, 1, 0), (2, 0, 0)) else ('thorough',), witness=(nh_, j0_, j1_) == (1, 1, 0)))
HARNESSES.append(rsc_inst(2, 0, 0, ('quick', 'thorough'), te=True))   # one of the handler's headers is itself a Transfer-Encoding header
UNITS['rsi'] = dict(src='harness/w_c05_ins.cc', mode='sel', roots=['c05_ins_int', 'c05_ins_uint', 'c05_ins_short', 'c05_ins_long', 'c05_ins_cstr', 'c05_ins_u8', 'c05_ins_bool', 'c05_ins_arr'])
for (n_, t_, rng_) in (('short', 3, 'every int16_t value'), ('int', 1, 'every int value'), ('uint', 2, 'every unsigned value'), ('long', 4, 'every int64_t value'), ('u8', 6, 'every uint8_t value'), ('cstr', 5, 'every C string of 0..3 bytes'), ('bool', 7, 'both truth values'), ('arr', 8, 'every char[4] holding 3 non-NUL characters')):
    HARNESSES.append(dict(name='stream_insert_' + n_, units=['rsi'], file='c05_insert.c', defs={'TY': t_}, unwind=22, hunwind=24, timeout=600, fs=64, witness=n_ in ('int', 'cstr'),
        bound='one insertion, %s, EVERY maximum response size 0..40' % rng_,
        desc="(b3) ResponseStream << value (template of http.h instantiated by harness/w_c05_ins.cc): one chunk whose size line announces exactly the number of bytes the value is written with, the value in decimal, nothing for an empty text, a throw iff a piece did not fit"))
def pow_inst(nh, j0, j1, tiers, witness=False):
    return dict(name='put_on_wire_h%d_j%d%d' % (nh, j0, j1), units=['pow'], file='c05_wire.c', defs={'NHDRFIX': nh, 'JAR0': j0, 'JAR1': j1, 'VP_DISPATCH_ru8p_u8p': None, 'VP_DISPATCH_CUSTOM_ru8p_u8p': None, 'VP_DISPATCH_rvoid_u8p_u8p': None},
        unwind=5, hunwind=50, timeout=1500, fs=64, tiers=tiers, witness=witness,
        bound='%d typed headers, cookie jar with %s; any version/status code, body of 0..3 bytes, opaque pieces of arbitrary fixed lengths, EVERY maximum response size 0..200' % (nh, 'no cookie' if not j0 else ('one name with %d value(s)' % j0 if not j1 else 'two names with %d and %d value(s)' % (j0, j1))),
        desc='(b) putOnWire: exact token sequence (status line, each header once, each cookie once, Content-Length == body length, blank line, body) when it fits, size reported == bytes emitted; otherwise rejected promise and nothing handed to the transport')
for nh_ in (0, 1, 2):
    for (j0_, j1_) in ((0, 0), (1, 0), (2, 0), (1, 1), (2, 1), (1, 2), (2, 2)):
        q_ = (nh_, j0_, j1_) in ((0, 0, 0), (1, 1, 0), (2, 2, 1), (1, 1, 2))
        HARNESSES.append(pow_inst(nh_, j0_, j1_, ('quick', 'thorough') if q_ else ('thorough',), witness=(nh_, j0_, j1_) in ((1, 1, 0), (2, 2, 1))))
for s0 in (0, 1, 3):
    for mx in sorted({s0, s0 + 1, 5, 6, 8}):
        if mx < s0: continue
        for (l1, l2) in ((1, 1), (3, 4), (6, 3), (0, 9)):
            quick = (l1, l2) in ((3, 4), (6, 3)) and mx in (5, 6, 8, s0)
            HARNESSES.append(dict(name='dynbuf_s%d_m%d_w%d_%d' % (s0, mx, l1, l2), units=['dynbuf'], file='c05_dynbuf.c', defs={'S0': s0, 'MAXSZ': mx, 'L1': l1, 'L2': l2, 'VP_ALLOC_FIXED': 16, 'VP_MEMMAX': 16}, unwind=max(mx, l1 + l2) + 4,
                tiers=('quick', 'thorough') if quick else ('thorough',), witness=(l1 == 3 and mx in (5, 8)),
                bound='initial size %d, maximum %d, writes of %d then %d bytes (all contents)' % (s0, mx, l1, l2),
                desc='(a) DynamicStreamBuf: accepted == min(len, max - used), contents exact across growth boundaries, never beyond max, clear() rewinds'))
ASSUMPTIONS = ['stream_insert: numeric insertion is a token whose byte length is what std::ostream writes the number with in the classic locale (decimal digits plus sign, or the hex digits of its two-complement while std::hex is in force on that ostream object; no width, showbase or grouping); an unsigned char is one character',
               'stream_head: same ostream token model as put_on_wire; DynamicStreamBuf construction records the maximum, Message/Timeout/weak_ptr moves and the EncodingHeader constructor are field-copy stubs',
               'put_on_wire: std::ostream objects are ghost token logs over one byte counter with a symbolic capacity (an insertion that does not fit is cut and fails THAT ostream); Header::write, Cookie output, version/status texts and the Content-Length digits are opaque tokens of arbitrary fixed lengths; Transport::asyncWrite, Promise::then/rejected, peer(), Timeout::disarm, DynamicStreamBuf::buffer are recording stubs; the real CookieJar::iterator runs on ghost unordered_maps',
               'writes are byte-wise puts: store into the put area or call the real overflow() when it is full (what sputc does; xsputn bulk copies are libstdc++)',
               'heap blocks are fixed-size (16 bytes, requests asserted to fit): sizes are checked functionally (storage size, put pointer, contents), not by CBMC bounds checks',
               'std::vector<char> growth (resize/_M_default_append) is the real inlined libstdc++ code over exact-size malloc blocks; allocation failure out of scope']
OUTSIDE = ['numeric/locale formatting of std::ostream (num_put)', 'the client request writer (std::stringstream)', 'serveFile']
