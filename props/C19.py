# C19 -- address and port text forms are parsed exactly or rejected
NET = '/repo/src/common/net.cc'
OFFSETS = ['harness/offsets_http.cc']
PORT = '_ZN8Pistache4PortC2ERKNSt7__cxx1112basic_stringIcSt11char_traitsIcESaIcEEE'
APARSER = '_ZN8Pistache13AddressParserC2ERKNSt7__cxx1112basic_stringIcSt11char_traitsIcESaIcEEE'
INIT = '_ZN8Pistache7Address4initERKNSt7__cxx1112basic_stringIcSt11char_traitsIcESaIcEEE'
UNITS = {'net': dict(src=NET, mode='sel', roots=[PORT, APARSER, INIT])}
HARNESSES = [
  dict(name='port_text', units=['net'], file='c19_net.c', defs={'H_PORT': None, 'N': 11}, unwind=14, thorough=dict(defs={'H_PORT': None, 'N': 12}, unwind=15),
       bound='every NUL-terminated port text of length <= 11 (thorough 12)', desc='Port(string): accepted iff complete numeral in 0..65535, value stored untruncated, else invalid_argument'),
  dict(name='address_parser', units=['net'], file='c19_net.c', defs={'H_PARSER': None, 'N': 7}, unwind=10, thorough=dict(defs={'H_PARSER': None, 'N': 10}, unwind=13),
       bound='every address text of length <= 7 (thorough 10)', desc='AddressParser: host/port/hasColon/family equal the reference splitter (bracketed literal, else first colon)'),
  dict(name='address_init_port', units=['net'], file='c19_net.c', defs={'H_INIT': None, 'N': 11}, unwind=14, thorough=dict(defs={'H_INIT': None, 'N': 12}, unwind=15),
       bound='every address text of length <= 11 (thorough 12) without brackets', desc='Address::init: port section accepts exactly 0..65535 complete numerals (80 when absent) before resolving; no truncation'),
]
ASSUMPTIONS = ['sel mode: std::string operations (find, substr, c_str, empty, ==) are ghost models aliasing the source bytes; strtol is the byte-exact model of models/libc.h',
               'environment: inet_pton/getaddrinfo/inet_ntop are arbitrary (here: always fail) -- literal <-> binary conversion and name resolution are outside',
               'acceptance of a port is defined by strtol numeral syntax (optional leading white space and sign), as the implementation documents by using strtol']
OUTSIDE = ['literal <-> binary conversion and printing (libc inet_pton/inet_ntop), name resolution, IPv6 host extraction after the port section']
