# C13 -- cross-thread queue: no loss, duplication, reordering or missed wake-up (bounded schedules, own sequentialisation)
UNITS = {'q': dict(src='harness/w_c13.cc', mode='inl', cflags=['-DPISTACHE_VERIF_HOOKS'], roots=['vp_new', 'vp_push', 'vp_drain', 'vp_linked'], resumable=['vp_push', 'vp_drain'])}
def inst(p, m, k, tiers, witness=True, opts=None, timeout=1500):
    return dict(name='queue_p%d_m%d_k%d' % (p, m, k), units=['q'], include_units=True, file='c13_queue.c', defs={'NPROD': p, 'NPUSH': m, 'KSTEPS': k, 'VP_DISPATCH_ru8p_u8p': None},
                unwind=3, hunwind=max(k + 1, 8), tiers=tiers, witness=witness, timeout=timeout, memgb=16, opts=opts or [],
                bound='%d producer(s) x %d push(es), one consumer, every schedule of <= %d steps (one shared access per step, idle steps allowed)' % (p, m, k),
                replay=dict(program='harness/replay_c13.cc', cflags=['-DPISTACHE_VERIF_HOOKS'], real=['/repo/src/common/os.cc'], args=['NPROD', 'NPUSH']),
                desc='at every quiescent end state: each item popped at most once, per-producer FIFO, popped + queued == pushed, queued item => notification pending')
HARNESSES = [
  inst(1, 1, 9, ('quick', 'thorough')),
  inst(2, 1, 14, ('quick', 'thorough')),
  inst(1, 2, 14, ('quick', 'thorough')),
  # deeper instances, kept out of the registered tiers: they were not observed to finish within the time available (run: ./check C13 --tier deep)
  inst(2, 2, 22, ('deep',), timeout=7200),
  inst(3, 1, 20, ('deep',), timeout=7200),
]
ASSUMPTIONS = ['sequentially consistent memory (as the property states); one scheduler step = code between two pistache_verif_yield() hook calls, which the hook commit places before every atomic operation and eventfd syscall of mailbox.h',
               'eventfd modelled as a counter (write adds, read returns-and-zeroes or EAGAIN); the event loop starts a drain only while the counter is non-zero (level-triggered registration in bind())',
               'operator new never fails; T = int']
OUTSIDE = ['relaxed-memory effects', 'MPMCQueue (client)', 'the real eventfd/epoll', 'schedules longer than the stated step bound']
