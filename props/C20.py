# C20 -- Base64 and Basic credentials round-trip
B64 = '/repo/src/common/base64.cc'
UNITS = {
  'b64': dict(src=B64, mode='inl', roots=['_ZN13Base64Encoder6EncodeB5cxx11Ev', '_ZN13Base64Decoder6DecodeEv']),
}
REAL = dict(real=[B64], shim=['harness/shim_guard.cc'])
HARNESSES = []
for n in range(0, 10):
    HARNESSES.append(dict(name='roundtrip_n%d' % n, units=['b64'], file='c20_b64.c', defs={'H_ROUNDTRIP': None, 'N': n}, unwind=n + 6,
        tiers=('quick', 'thorough') if n <= 6 else ('thorough',), bound='every byte string of length exactly %d (all 256^%d contents)' % (n, n),
        desc='Decode(Encode(x)) == x and Encode(x) == RFC 4648 reference text, |x| = %d' % n,
        replay=REAL, tv=dict(real=[B64, 'harness/shim_guard.cc'], n=60)))
for n in range(0, 9):
    HARNESSES.append(dict(name='decode_n%d' % n, units=['b64'], file='c20_b64.c', defs={'H_DECODE': None, 'N': n}, unwind=n + 6,
        tiers=('quick', 'thorough') if n <= 5 else ('thorough',), bound='every NUL-terminated text of length exactly %d without embedded NUL' % n,
        desc='Decode(arbitrary text) throws or returns <= 3n/4 bytes, all reads inside the exact-size text block, |text| = %d' % n,
        replay=REAL, tv=dict(real=[B64, 'harness/shim_guard.cc'], n=60)))
ASSUMPTIONS = [
  'encoding: clang++-14 -O1 IR of src/common/base64.cc translated to C by engine/ir2c.py (byte-addressed memory); inlined libstdc++ code is real',
  'model: std::string::_M_construct(n,c), reserve(), operator new/delete as exact-size malloc blocks; allocation failure out of scope',
  'model: libstdc++ __throw_* helpers set a pending-exception flag; exception object contents (what()) not modelled',
  'one query per concrete length (size arithmetic /3 %4 on a symbolic length does not bit-blast); contents fully symbolic',
]
OUTSIDE = ['strings longer than the stated lengths (loop bodies are position independent: stated, not proved)',
           'Authorization::getBasicUser/Password string plumbing (see harness basic_* when present)']
