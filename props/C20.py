# C20 -- Base64 and Basic credentials round-trip
B64 = '/repo/src/common/base64.cc'
UNITS = {
  'b64': dict(src=B64, mode='inl', roots=['_ZN13Base64Encoder6EncodeB5cxx11Ev', '_ZN13Base64Decoder6DecodeEv']),
}
REAL = dict(real=[B64], shim=['harness/shim_guard.cc'])
_HH = '/repo/src/common/http_header.cc'
OFFSETS = ['harness/offsets_http.cc']
_A, _AK = '_ZN8Pistache4Http6Header13Authorization', '_ZNK8Pistache4Http6Header13Authorization'
UNITS['auth'] = dict(src=_HH, mode='sel', roots=[_A + '20setBasicUserPasswordERKNSt7__cxx1112basic_stringIcSt11char_traitsIcESaIcEEESA_', _AK + '12getBasicUserB5cxx11Ev', _AK + '16getBasicPasswordB5cxx11Ev'])
HARNESSES = [dict(name='basic_credentials', units=['auth'], file='c20_auth.c', defs={'UL': 2, 'PL': 3}, unwind=10, hunwind=40, thorough=dict(defs={'UL': 3, 'PL': 4}, unwind=12), timeout=1200,
    bound='every user of 0..2 bytes (thorough 3) and every password of 0..3 bytes (thorough 4), all byte values, colons in the password included; encoded text of arbitrary length 1..4 and content',
    desc='(c) Authorization: setBasicUserPassword -> getBasicUser / getBasicPassword return exactly what was set; value is "Basic " + encoded credentials; a user with a colon is refused')]
for n in range(0, 10):
    HARNESSES.append(dict(name='roundtrip_n%d' % n, units=['b64'], file='c20_b64.c', defs={'H_ROUNDTRIP': None, 'N': n}, unwind=n + 6,
        tiers=('quick', 'thorough') if n <= 6 else ('thorough',), bound='every byte string of length exactly %d (all 256^%d contents)' % (n, n),
        desc='Decode(Encode(x)) == x and Encode(x) == RFC 4648 reference text, |x| = %d' % n,
        replay=REAL, tv=dict(real=[B64, 'harness/shim_guard.cc'], n=60)))
for n in range(0, 9):
    HARNESSES.append(dict(name='decode_n%d' % n, units=['b64'], file='c20_b64.c', defs={'H_DECODE': None, 'N': n}, unwind=n + 6,
        tiers=('quick', 'thorough') if n <= 5 else ('thorough',), bound='every NUL-terminated text of length exactly %d without embedded NUL' % n,
        desc='Decode(arbitrary text) throws or returns <= 3n/4 bytes, all reads inside the exact-size text block, |text| = %d' % n,
        replay=REAL, tv=dict(real=[B64, 'harness/shim_guard.cc'], n=60)))
ASSUMPTIONS = ['basic_credentials: Base64Encoder::EncodeString / Base64Decoder::Decode are an abstract inverse pair (proved inverse by the codec harnesses of this check); std::string operations are ghost models with an append arena',
               
  'encoding: clang++-14 -O1 IR of src/common/base64.cc translated to C by engine/ir2c.py (byte-addressed memory); inlined libstdc++ code is real',
  'model: std::string::_M_construct(n,c), reserve(), operator new/delete as exact-size malloc blocks; allocation failure out of scope',
  'model: libstdc++ __throw_* helpers set a pending-exception flag; exception object contents (what()) not modelled',
  'one query per concrete length (size arithmetic /3 %4 on a symbolic length does not bit-blast); contents fully symbolic',
]
OUTSIDE = ['strings longer than the stated lengths (loop bodies are position independent: stated, not proved)',
           'Authorization::getBasicUser/Password string plumbing (see harness basic_* when present)']
