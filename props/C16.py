# C16 -- typed headers survive write/parse and are found under any capitalisation
import glob
HH = '/repo/src/common/http_headers.cc'
ALL = sorted(glob.glob('/repo/src/common/*.cc') + glob.glob('/repo/src/server/*.cc') + glob.glob('/repo/src/client/*.cc'))
UNITS = {
  'case': dict(src=['harness/w_c16.cc', HH], mode='inl', roots=['vp_lower', 'vp_equal', 'vp_equal_static']),
}
HHDR = '/repo/src/common/http_header.cc'
OFFSETS = ['harness/offsets_http.cc']
_P, _PK = '_ZN8Pistache4Http6Header', '_ZNK8Pistache4Http6Header'
UNITS['hdr'] = dict(src=HHDR, mode='sel', roots=[_P + '10Connection8parseRawEPKcm', _PK + '10Connection5writeERSo', _P + '14EncodingHeader8parseRawEPKcm', _PK + '14EncodingHeader5writeERSo',
    _P + '6Expect8parseRawEPKcm', _PK + '6Expect5writeERSo', _P + '13ContentLength5parseERKNSt7__cxx1112basic_stringIcSt11char_traitsIcESaIcEEE', _PK + '13ContentLength5writeERSo', _P + '12CacheControl8parseRawEPKcm', _PK + '12CacheControl5writeERSo'])
_MS = '_ZN8Pistache12match_stringEPKcmRNS_12StreamCursorENS_15CaseSensitivityE'
def _typed(name, defs, bound, witness=True, **kw):
    return dict(dict(name=name, units=['hdr'], file='c16_typed.c', defs=defs, unwind=24, unwindset={_MS + '.0': 25, 'gos_put.0': 25}, hunwind=34, witness=witness, bound=bound,
                desc='(c) typed header: write -> parse(written text) yields an equal header; writing it again yields identical text'), **kw)
HARNESSES = [
  _typed('typed_connection', {'H_CONN': None}, 'Connection: every control value (Close, Keep-Alive, Ext)'),
  _typed('typed_encoding', {'H_ENC': None}, 'Content-Encoding / Transfer-Encoding: every encoding (gzip, compress, deflate, identity, chunked, unknown)'),
  _typed('typed_expect', {'H_EXPECT': None}, 'Expect: 100-continue and other', witness=False),
  _typed('typed_content_length', {'H_CLEN': None, 'NDIG': 4}, 'Content-Length: every value of 1..4 digits'),
] + [_typed('typed_cache_control_d%d' % d_, {'H_CACHE': None, 'DIRFIX': d_, 'CCDIG': 2}, 'Cache-Control with one directive of kind #%d, every delta-seconds of 1..2 digits (thorough 3), 0 included' % d_, witness=(d_ == 0), unwind=10, outer_unwind=12, timeout=1500, thorough=dict(defs={'H_CACHE': None, 'DIRFIX': d_, 'CCDIG': 3}),
           tiers=('quick', 'thorough') if d_ in (0, 2, 9) else ('thorough',), unwindset={'_ZN8Pistache9match_rawEPKvmRNS_12StreamCursorE.0': 18, 'gos_put.0': 25}) for d_ in range(12)] + [
  _typed('typed_content_length_max', {'H_CLEN': None, 'CL_MAX': None}, 'Content-Length: 2^64-1', witness=False),
  dict(name='case_fold_l1', units=['case'], file='c16_case.c', defs={'L': 1}, unwind=6, bound='all pairs of strings of length <= 1 over all 256 byte values (every single byte against every single byte)',
       desc='(a) as case_fold, the single-character base case: exactly the 26 ASCII letter pairs are identified'),
  dict(name='case_fold', units=['case'], file='c16_case.c', defs={'L': 3}, unwind=8, thorough=dict(defs={'L': 6}, unwind=11),
       bound='all pairs of strings of length <= 3 (thorough 6) over all 256 byte values',
       desc='(a) LowercaseEqual <=> equal toLowercase images (hash/equality consistency, any capitalisation found); toLowercase == C-locale fold; LowercaseEqualStatic agrees',
       replay=dict(real=['harness/w_c16.cc'] + ALL), tv=dict(real=['harness/w_c16.cc'] + ALL, n=200)),
]
ASSUMPTIONS = ['tolower is the C-locale table (the build defines ONLY_C_LOCALE); std::hash<std::string> is a function of the bytes (trusted)',
               'unordered_map::insert keeps the first value / find uses hash+equal (libstdc++ container semantics trusted)']
ASSUMPTIONS += ['typed header harnesses: std::ostream is a byte log; operator<<(unsigned long) prints the decimal digits the harness chose for the value (num_put outside); std::stoull is the strtoull model; cursor primitives are the contracts proven by C03']
OUTSIDE = ['Date header (Hinnant date + iostreams)', 'CacheControl, Host (see C19), Authorization (see C20), Accept/Allow (no reader or no writer), string-valued headers (identity)']
