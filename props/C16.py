# C16 -- typed headers survive write/parse and are found under any capitalisation
import glob
HH = '/repo/src/common/http_headers.cc'
ALL = sorted(glob.glob('/repo/src/common/*.cc') + glob.glob('/repo/src/server/*.cc') + glob.glob('/repo/src/client/*.cc'))
UNITS = {
  'case': dict(src=['harness/w_c16.cc', HH], mode='inl', roots=['vp_lower', 'vp_equal', 'vp_equal_static']),
}
HARNESSES = [
  dict(name='case_fold_l1', units=['case'], file='c16_case.c', defs={'L': 1}, unwind=6, bound='all pairs of strings of length <= 1 over all 256 byte values (every single byte against every single byte)',
       desc='(a) as case_fold, the single-character base case: exactly the 26 ASCII letter pairs are identified'),
  dict(name='case_fold', units=['case'], file='c16_case.c', defs={'L': 3}, unwind=8, thorough=dict(defs={'L': 6}, unwind=11),
       bound='all pairs of strings of length <= 3 (thorough 6) over all 256 byte values',
       desc='(a) LowercaseEqual <=> equal toLowercase images (hash/equality consistency, any capitalisation found); toLowercase == C-locale fold; LowercaseEqualStatic agrees',
       replay=dict(real=['harness/w_c16.cc'] + ALL), tv=dict(real=['harness/w_c16.cc'] + ALL, n=200)),
]
ASSUMPTIONS = ['tolower is the C-locale table (the build defines ONLY_C_LOCALE); std::hash<std::string> is a function of the bytes (trusted)',
               'unordered_map::insert keeps the first value / find uses hash+equal (libstdc++ container semantics trusted)']
OUTSIDE = ['Date header (Hinnant date + iostreams)']
