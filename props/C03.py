# C03 -- no network input can corrupt memory, hang the parser or over-reserve (parser-level kernels)
STREAM = '/repo/src/common/stream.cc'
CUR_ROOTS = ['_ZN8Pistache12StreamCursor7advanceEm', '_ZNK8Pistache12StreamCursor3eolEv', '_ZNK8Pistache12StreamCursor4nextEv',
  '_ZNK8Pistache12StreamCursor3eofEv', '_ZNK8Pistache12StreamCursor7currentEv', '_ZNK8Pistache12StreamCursor9remainingEv', '_ZNK8Pistache12StreamCursor6offsetEv', '_ZNK8Pistache12StreamCursor6offsetEm', '_ZNK8Pistache12StreamCursor4diffEm',
  '_ZN8Pistache9match_rawEPKvmRNS_12StreamCursorE', '_ZN8Pistache12match_stringEPKcmRNS_12StreamCursorENS_15CaseSensitivityE',
  '_ZN8Pistache13match_literalEcRNS_12StreamCursorENS_15CaseSensitivityE',
  '_ZN8Pistache11match_untilESt16initializer_listIcERNS_12StreamCursorENS_15CaseSensitivityE',
  '_ZN8Pistache12match_doubleEPdRNS_12StreamCursorE', '_ZN8Pistache12StreamCursor5resetEv', '_ZN8Pistache16skip_whitespacesERNS_12StreamCursorE']
UNITS = {
  'cursor': dict(src=STREAM, mode='inl', roots=CUR_ROOTS),
}
REAL = dict(real=[STREAM])
HARNESSES = []
for h, d in [('EOL', 'eol() true iff CR LF both delivered; no read beyond the delivered bytes'), ('NEXT', 'next() never reads beyond the delivered bytes'),
             ('ADVANCE', 'advance(count) exact'), ('BASIC', 'eof/remaining/current/offset/diff'), ('RESET', 'StreamCursor::reset'), ('RAW', 'match_raw'), ('STRING', 'match_string, both case modes'),
             ('LITERAL', 'match_literal'), ('UNTIL', 'match_until (1-2 delimiters)'), ('SKIPWS', 'skip_whitespaces'), ('DOUBLE', 'match_double inside a CRLF-terminated value: strtod scanner stays inside the buffer')]:
    HARNESSES.append(dict(name='cursor_' + h.lower(), units=['cursor'], file='c03_cursor.c', defs=dict({'H_' + h: None, 'N': 6}, **({'PATMAX': 6} if h == 'STRING' else {})), unwind=9,
        thorough=dict(defs=dict({'H_' + h: None, 'N': 12}, **({'PATMAX': 12} if h == 'STRING' else {})), unwind=15),
        bound='every buffer of n <= 6 (thorough 12) bytes in an exact-size heap block x every cursor position', desc=d,
        replay=REAL, tv=None if h == 'DOUBLE' else dict(real=[STREAM], n=200)))
# the cookie and media-type parsers (units and harnesses of C17 / C18): memory safety, termination and "only the documented exceptions" on exact-size blocks
import importlib.util as _iu, os as _os
def _load(pid):
    sp = _iu.spec_from_file_location('prop_' + pid + '_for_C03', _os.path.join(_os.path.dirname(_os.path.abspath(__file__)), pid + '.py'))
    m = _iu.module_from_spec(sp); sp.loader.exec_module(m); return m
_c17, _c18 = _load('C17'), _load('C18')
UNITS['cookie'] = _c17.UNITS['cookie']; UNITS['mime'] = _c18.UNITS['mime']
OFFSETS = ['harness/offsets_http.cc']
_pick = {'jar_n5': ('quick', 'thorough'), 'fromraw_n7': ('quick', 'thorough'), 'fromraw_maxage': ('quick', 'thorough'), 'parse_n8': ('quick', 'thorough'),
         'jar_n8': ('thorough',), 'jar_n10': ('thorough',), 'fromraw_n10': ('thorough',), 'parse_n11': ('thorough',), 'parse_n3': ('thorough',)}
for _h in _c17.HARNESSES + _c18.HARNESSES:
    if _h['name'] in _pick:
        _g = dict(_h); _g['tiers'] = _pick[_h['name']]; _g['witness'] = _h['name'] in ('fromraw_n7', 'parse_n8'); HARNESSES.append(_g)
ASSUMPTIONS = [
  'encoding: clang++-14 -O1 IR translated to C by engine/ir2c.py; inlined libstdc++ streambuf accessors are real code',
  'model: std::basic_streambuf virtuals showmanyc/underflow/uflow of a plain get-area buffer (return 0 / eof)',
  'model: libc tolower (C locale), memcmp/strncmp (range/sequential readers), strtod as a byte scanner with uninterpreted value',
]
ASSUMPTIONS += ['cookie / media-type parser harnesses: as listed for C17 / C18 (sel mode, ghost containers, cursor contracts proven by the cursor kernels of this same run)']
OUTSIDE = ['server-level clauses (4xx/5xx on the wire, other connections keep being served): sockets and event loop',
           'buffers longer than the stated bounds']
