# C03 -- no network input can corrupt memory, hang the parser or over-reserve (parser-level kernels)
STREAM = '/repo/src/common/stream.cc'
CUR_ROOTS = ['_ZN8Pistache12StreamCursor7advanceEm', '_ZNK8Pistache12StreamCursor3eolEv', '_ZNK8Pistache12StreamCursor4nextEv',
  '_ZNK8Pistache12StreamCursor3eofEv', '_ZNK8Pistache12StreamCursor7currentEv', '_ZNK8Pistache12StreamCursor9remainingEv', '_ZNK8Pistache12StreamCursor6offsetEv', '_ZNK8Pistache12StreamCursor6offsetEm', '_ZNK8Pistache12StreamCursor4diffEm',
  '_ZN8Pistache9match_rawEPKvmRNS_12StreamCursorE', '_ZN8Pistache12match_stringEPKcmRNS_12StreamCursorENS_15CaseSensitivityE',
  '_ZN8Pistache13match_literalEcRNS_12StreamCursorENS_15CaseSensitivityE',
  '_ZN8Pistache11match_untilESt16initializer_listIcERNS_12StreamCursorENS_15CaseSensitivityE',
  '_ZN8Pistache12match_doubleEPdRNS_12StreamCursorE', '_ZN8Pistache12StreamCursor5resetEv', '_ZN8Pistache16skip_whitespacesERNS_12StreamCursorE']
UNITS = {
  'cursor': dict(src=STREAM, mode='inl', roots=CUR_ROOTS),
}
REAL = dict(real=[STREAM])
HARNESSES = []
for h, d in [('EOL', 'eol() true iff CR LF both delivered; no read beyond the delivered bytes'), ('NEXT', 'next() never reads beyond the delivered bytes'),
             ('ADVANCE', 'advance(count) exact'), ('BASIC', 'eof/remaining/current/offset/diff'), ('RESET', 'StreamCursor::reset'), ('RAW', 'match_raw'), ('STRING', 'match_string, both case modes'),
             ('LITERAL', 'match_literal'), ('UNTIL', 'match_until (1-2 delimiters)'), ('SKIPWS', 'skip_whitespaces'), ('DOUBLE', 'match_double inside a CRLF-terminated value: strtod scanner stays inside the buffer')]:
    HARNESSES.append(dict(name='cursor_' + h.lower(), units=['cursor'], file='c03_cursor.c', defs={'H_' + h: None, 'N': 6}, unwind=9,
        thorough=dict(defs={'H_' + h: None, 'N': 12}, unwind=15),
        bound='every buffer of n <= 6 (thorough 12) bytes in an exact-size heap block x every cursor position', desc=d,
        replay=REAL, tv=None if h == 'DOUBLE' else dict(real=[STREAM], n=200)))
ASSUMPTIONS = [
  'encoding: clang++-14 -O1 IR translated to C by engine/ir2c.py; inlined libstdc++ streambuf accessors are real code',
  'model: std::basic_streambuf virtuals showmanyc/underflow/uflow of a plain get-area buffer (return 0 / eof)',
  'model: libc tolower (C locale), memcmp/strncmp (range/sequential readers), strtod as a byte scanner with uninterpreted value',
]
OUTSIDE = ['server-level clauses (4xx/5xx on the wire, other connections keep being served): sockets and event loop',
           'buffers longer than the stated bounds']
