# C11 -- promise chains deliver every outcome exactly once (combinator kernels)
OFFSETS = ['harness/offsets_async.cc']
ROOTS = ['c11_all2_init', 'c11_all3_init', 'c11_any_init', 'c11_all2_resolve0', 'c11_all2_resolve1', 'c11_all2_reject', 'c11_all3_resolve0', 'c11_all3_resolve1', 'c11_all3_resolve2', 'c11_all3_resolvevoid', 'c11_all3_reject',
         'c11_any_resolve', 'c11_any_resolvevoid', 'c11_any_reject']
UNITS = {'comb': dict(src='harness/w_c11.cc', mode='sel', roots=ROOTS, stubs_re=r'^_ZNK8Pistache5Async(8Resolver|9Rejection)cl|^_ZN8Pistache5Async7Private4Core9constructI')}
UNITS['range'] = dict(src='harness/w_c11r.cc', mode='sel', roots=['c11_war_ctor', 'c11_war_fulfil'], stubs_re=r'^_ZNK8Pistache5Async(8Resolver|9Rejection)cl')
HARNESSES = []
def h(name, defs, desc, witness=True):
    n = defs.get('NIN', 2)
    return dict(name=name, units=[defs.pop('UNIT', 'comb')], file='c11_comb.c', defs=defs, unwind=5, hunwind=6, witness=witness,
                bound='%d inputs, every order of settling, every fulfil/reject outcome per input, every 32-bit value' % n, desc=desc)
HARNESSES += [
  h('all_n2', {'H_ALL': None, 'NIN': 2}, 'all-of over two int inputs: fulfils once after the last fulfilment with values in argument order; rejects once at the first rejection; later outcomes raise nothing'),
  h('all_n3', {'H_ALL': None, 'NIN': 3}, 'all-of over three int inputs'),
  h('all_void3', {'H_ALL': None, 'NIN': 3, 'VOIDS': None}, 'all-of over three void inputs (resolveVoid)', witness=False),
  h('any_n2', {'H_ANY': None, 'NIN': 2}, 'any-of over two int inputs: takes exactly the first outcome; later outcomes raise nothing'),
  h('any_n3', {'H_ANY': None, 'NIN': 3}, 'any-of over three int inputs'),
  h('range_n3', {'H_RANGE': None, 'NIN': 3, 'UNIT': 'range'}, 'range all-of (WhenAllRange<int, vector<int>>: DataT constructor + WhenContinuation): fulfils once after the last fulfilment with the values in argument order whatever the completion order; nothing after a rejection'),
  h('range_n2', {'H_RANGE': None, 'NIN': 2, 'UNIT': 'range'}, 'range all-of over two inputs', witness=False),
  h('any_void2', {'H_ANY': None, 'NIN': 2, 'VOIDS': None}, 'any-of over two void inputs (resolveVoid)', witness=False),
]
ASSUMPTIONS = [
  'sel mode: Impl::All / Impl::Any policy functions instantiated by harness/w_c11.cc with a Data type mirroring the local struct of Impl::When::whenArgs',
  'Resolver::operator() / Rejection::operator() are recording stubs with the real contract of async.h: they throw Async::Error when the core is no longer pending',
  'std::mutex via lock_guard is a held-flag; shared_ptr / exception_ptr are pointer copies; make_shared<CoreT<T>> + Core::construct are recording stubs',
  'each input promise settles exactly once (guaranteed by the promise core itself; outside this kernel)',
]
OUTSIDE = ['the rejection lambda of WhenAllRange::operator() (a closure inside a function template over promise iterators)', 'Promise::then chains, attach-before/after-settle orders, value forwarding through Continuable/Chainer, the rethrow handler: the shared_ptr/vector/std::function-heavy part gave no verdict in 15 min during design (DESIGN.md section 2)',
           'more than 3 inputs']
