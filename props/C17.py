# C17 -- cookies survive write/parse; a Cookie header yields exactly its pairs
COOKIE = '/repo/src/common/cookie.cc'
STREAM = '/repo/src/common/stream.cc'
OFFSETS = ['harness/offsets_http.cc']
FROMRAW = '_ZN8Pistache4Http6Cookie7fromRawEPKcm'
ADDFROMRAW = '_ZN8Pistache4Http9CookieJar10addFromRawEPKcm'
WRITE = '_ZNK8Pistache4Http6Cookie5writeERSo'
ADD = '_ZN8Pistache4Http9CookieJar3addERKNS0_6CookieE'
UNITS = {'cookie': dict(src=COOKIE, mode='sel', roots=[FROMRAW, ADDFROMRAW, WRITE], stubs=[ADD])}
HARNESSES = []
MS = '_ZN8Pistache12match_stringEPKcmRNS_12StreamCursorENS_15CaseSensitivityE'
US = {MS + '.0': 25, 'gos_put.0': 25, 'gs_same.0': 17, 'gmap_insert.0': 5}
for n in range(0, 13):
    HARNESSES.append(dict(name='jar_n%d' % n, units=['cookie'], file='c17_cookie.c', defs={'H_JAR': None, 'NN': n}, unwind=n + 3, unwindset=US,
        tiers=('quick', 'thorough') if n in (0, 1, 5, 8) else ('thorough',), witness=(n in (5, 8)),
        bound='every Cookie header text of exactly %d bytes (all 256^%d contents) in an exact-size heap block' % (n, n),
        desc='CookieJar::addFromRaw: memory safety, termination, only runtime_error; pairs handed to the jar == reference splitter'))
for n in range(0, 11):   # n = 11 can hold more distinct attribute names than the ghost map of the harness (capacity 3): harness bound, not run
    HARNESSES.append(dict(name='fromraw_n%d' % n, units=['cookie'], file='c17_cookie.c', defs={'H_SAFE': None, 'NN': n}, unwind=n + 3, unwindset=US, outer_unwind=max(2, n - 1),
        tiers=('quick', 'thorough') if n in (0, 2, 7) else ('thorough',), witness=(n in (7, 10)),
        bound='every Set-Cookie text of exactly %d bytes in an exact-size heap block; FullDate parser arbitrary' % n,
        desc='Cookie::fromRaw: memory safety, termination, only runtime_error/invalid_argument; name/value are the exact ranges; Max-Age never overflows'))
HARNESSES.append(dict(name='fromraw_maxage', units=['cookie'], file='c17_cookie.c', defs={'H_SAFE': None, 'NN': 22, 'PREFIX': '"a=;Max-Age="'}, unwind=25, unwindset=US, outer_unwind=3, timeout=1500,
    bound='every text of exactly 22 bytes that starts with "a=;Max-Age=" (11 arbitrary bytes other than a semicolon follow: every digit string of 11 digits, leading zeros included)', witness=True,
    desc='Cookie::fromRaw, Max-Age conversion: no signed overflow for any digit string, values beyond INT_MAX are rejected with invalid_argument'))
def rt(attrs, tiers, witness=False, extra=None, madig=3):
    d = {'H_RT': None, 'ATTRS': attrs, 'MADIG': madig}
    if extra: d.update(extra)
    nm = 'rt_a%d%s' % (attrs, '_intmax' if extra and 'MA_INTMAX' in extra else '')
    return dict(name=nm, units=['cookie'], file='c17_cookie.c', defs=d, unwind=14, unwindset=US, outer_unwind=bin(attrs).count('1') + 2, timeout=3000,
        tiers=tiers, witness=witness,
        bound='attribute set %s; name 1..2 token octets, value/Path/Domain/extension strings 0..2 cookie octets (all contents); Max-Age %s' % (
            '+'.join(n_ for b_, n_ in ((1, 'Path'), (2, 'Domain'), (4, 'Max-Age'), (8, 'Secure'), (16, 'HttpOnly'), (32, 'ext'), (64, 'ext2')) if attrs & b_) or 'none',
            'INT_MAX' if extra and 'MA_INTMAX' in extra else 'every value of 1..%d digits' % madig),
        desc='Cookie::write -> Cookie::fromRaw round trip: every field equal')
QUICK_RT = (0, 1, 2, 4, 8 | 16, 32, 1 | 4 | 8)
for a_ in range(0, 64):
    HARNESSES.append(rt(a_, ('quick', 'thorough') if a_ in QUICK_RT else ('thorough',), witness=(a_ in (4, 13, 63))))
HARNESSES.append(rt(4, ('quick', 'thorough'), extra={'MA_INTMAX': None}))
HARNESSES.append(rt(32 | 64, ('quick', 'thorough'), witness=True))
HARNESSES.append(rt(127, ('thorough',)))
HARNESSES.append(rt(4, ('thorough',), madig=6) | {'name': 'rt_a4_d6'})
ASSUMPTIONS = [
  'sel mode: cookie.cc translated; the StreamCursor primitives of stream.cc are the contract stubs of models/cursor_contract.h, each proven for the real code by the C03 cursor kernels; std::string / optional / map / pair are ghost models at method boundaries (strings alias their source bytes)',
  'std::ostream is an append-only byte log; operator<<(int) prints the decimal digits the harness chose for that value (libstdc++ num_put is outside)',
  'std::map<string,string> keeps unique keys (byte comparison); iteration order = key order for the <= 2 entries used',
  'FullDate::fromString / FullDate::write (Hinnant date, iostreams) are environment stubs: Expires is outside the claim',
  'CookieJar::add is a recording stub in the jar harness (unordered_map insert semantics trusted)',
]
OUTSIDE = ['Expires attribute (FullDate)', 'CookieJar::iterator (see jar iteration harness)', 'texts longer than the stated bounds', 'cookie strings longer than 2 octets in the round trip']
