# C04 -- successive messages on a persistent connection are parsed independently
import importlib.util, os
_p = os.path.join(os.path.dirname(__file__), 'C01.py'); _s = importlib.util.spec_from_file_location('c01', _p); C01 = importlib.util.module_from_spec(_s); _s.loader.exec_module(C01)
HTTP = C01.HTTP
OFFSETS = C01.OFFSETS
APPLY = ['_ZN8Pistache4Http7Private11HeadersStep5applyERNS_12StreamCursorE', '_ZN8Pistache4Http7Private15RequestLineStep5applyERNS_12StreamCursorE',
         '_ZN8Pistache4Http7Private16ResponseLineStep5applyERNS_12StreamCursorE', '_ZN8Pistache4Http7Private8BodyStep5applyERNS_12StreamCursorE']
UNITS = dict(C01.UNITS)
UNITS['parser'] = dict(src=HTTP, mode='inl', roots=['_ZN8Pistache4Http7Private10ParserBase4feedEPKcm', '_ZN8Pistache4Http7Private10ParserBase5resetEv',
                       '_ZN8Pistache4Http7Private10ParserBase5parseEv'], stubs=APPLY,
    globals=['_ZTVN8Pistache4Http7Private8BodyStepE', '_ZTVN8Pistache4Http7Private11HeadersStepE', '_ZTVN8Pistache4Http7Private15RequestLineStepE'])
ONINPUT = '_ZN8Pistache4Http7Handler7onInputEPKcmRKSt10shared_ptrINS_3Tcp4PeerEE'
UNITS['oninput'] = dict(src=HTTP, mode='sel', roots=[ONINPUT], stubs_re=r'^_ZN8Pistache4Http7Private10ParserBase(4feedEPKcm|5parseEv|5resetEv)|^_ZN8Pistache4Http7Private10ParserImplINS0_7RequestEE5resetEv|^_ZNK?8Pistache4Http7Handler9getParserE|^_ZN8Pistache3Tcp7Handler9transportEv|^_ZN8Pistache4Http9HttpErrorD[012]Ev|^_ZN8Pistache4Http14ResponseWriterC[12]E|^_ZN8Pistache4Http14ResponseWriterD[12]Ev|^_ZN8Pistache4Http14ResponseWriter8sendImplE|^_ZN8Pistache4Http14ResponseWriter4sendE|^_ZN8Pistache5Async7PromiseIlED[02]Ev|^_ZN8Pistache4Http7Request11copyAddressE|^_ZNK8Pistache4Http6Header10Collection6tryGet|^_ZN8Pistache4Http6Header10Collection3add|^_ZN8Pistache4Http9HttpErrorC[12]E|^_ZNK8Pistache4Http9HttpError|^_ZN8Pistache4Http4Mime9MediaTypeC2Ev')
HARNESSES = [
  dict(name='on_input', units=['oninput'], file='c04_oninput.c', defs={'VP_DISPATCH_rvoid_u8p_u8p_u8p': None, 'VP_DISPATCH_ru8p_u8p': None}, unwind=4, hunwind=50,
       bound='every outcome of one read: feed accepted / refused; parse Again / Done / HttpError with any status 400..599 / another std::exception; request with or without a Connection header',
       desc='(c) Handler::onInput: Again leaves the parser alone; Done hands the request over once and resets afterwards; every error path answers exactly once with the right status (413 / parser code / 500), never calls the handler, and resets the parser'),
  dict(name='reset', units=['parser'], file='c04_parser.c', defs={'H_RESET': None, 'S': 4}, unwind=7,
       bound='arbitrary step index 0..2, arbitrary 64-bit body/chunk counters, buffer of <= 4 bytes with any read offset and capacity',
       desc='(a) ParserBase::reset() restores the state of a fresh parser from ANY state (inductive step: covers every history before a reset)'),
]
# (b) a completed body leaves no progress behind: the body lemmas of C01 assert it at every Done and on every raise
for h in C01.HARNESSES:
    if h['name'].startswith(('body_cl', 'chunk_n8_', 'chunk_n11_k5', 'chunk_n11_k3', 'chunk_n11_k8')) or 'quick' not in h.get('tiers', ('quick',)):
        HARNESSES.append(h)
ASSUMPTIONS = C01.ASSUMPTIONS + ['reset harness: the three step objects carry the real vtables of RequestLineStep/HeadersStep/BodyStep; Request::operator= (message reset) is outside this kernel (ParserImpl<Request>::reset assigns a default-constructed Request)']
OUTSIDE = ['the client side (Connection::handleResponsePacket)', 'bytes of a following request that arrive in the same read as the end of a request (discarded by reset: see DESIGN.md C04)', 'header/cookie/query containers of the Request object (replaced wholesale by request = Request())']
