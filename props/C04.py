# C04 -- successive messages on a persistent connection are parsed independently
import importlib.util, os
_p = os.path.join(os.path.dirname(__file__), 'C01.py'); _s = importlib.util.spec_from_file_location('c01', _p); C01 = importlib.util.module_from_spec(_s); _s.loader.exec_module(C01)
HTTP = C01.HTTP
OFFSETS = C01.OFFSETS
APPLY = ['_ZN8Pistache4Http7Private11HeadersStep5applyERNS_12StreamCursorE', '_ZN8Pistache4Http7Private15RequestLineStep5applyERNS_12StreamCursorE',
         '_ZN8Pistache4Http7Private16ResponseLineStep5applyERNS_12StreamCursorE', '_ZN8Pistache4Http7Private8BodyStep5applyERNS_12StreamCursorE']
UNITS = dict(C01.UNITS)
UNITS['parser'] = dict(src=HTTP, mode='inl', roots=['_ZN8Pistache4Http7Private10ParserBase4feedEPKcm', '_ZN8Pistache4Http7Private10ParserBase5resetEv',
                       '_ZN8Pistache4Http7Private10ParserBase5parseEv'], stubs=APPLY,
    globals=['_ZTVN8Pistache4Http7Private8BodyStepE', '_ZTVN8Pistache4Http7Private11HeadersStepE', '_ZTVN8Pistache4Http7Private15RequestLineStepE'])
HARNESSES = [
  dict(name='reset', units=['parser'], file='c04_parser.c', defs={'H_RESET': None, 'S': 4}, unwind=7,
       bound='arbitrary step index 0..2, arbitrary 64-bit body/chunk counters, buffer of <= 4 bytes with any read offset and capacity',
       desc='(a) ParserBase::reset() restores the state of a fresh parser from ANY state (inductive step: covers every history before a reset)'),
]
# (b) a completed body leaves no progress behind: the body lemmas of C01 assert it at every Done and on every raise
for h in C01.HARNESSES:
    if h['name'].startswith(('body_cl', 'chunk_n8_', 'chunk_n11_k5', 'chunk_n11_k3', 'chunk_n11_k8')) or 'quick' not in h.get('tiers', ('quick',)):
        HARNESSES.append(h)
ASSUMPTIONS = C01.ASSUMPTIONS + ['reset harness: the three step objects carry the real vtables of RequestLineStep/HeadersStep/BodyStep; Request::operator= (message reset) is outside this kernel (ParserImpl<Request>::reset assigns a default-constructed Request)']
OUTSIDE = ['Handler::onInput / Connection::handleResponsePacket call reset exactly once per finished message (sel-mode harness: see DESIGN.md C04 c)', 'header/cookie/query containers of the Request object (replaced wholesale by request = Request())']
