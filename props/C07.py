# C07 -- a peer that cannot be written to does not stall the worker (would-block step of the drain loop; same harness as C06)
TR = '/repo/src/common/transport.cc'
OFFSETS = ['harness/offsets_http.cc']
AWI = '_ZN8Pistache3Tcp9Transport14asyncWriteImplEi'
RESOLVE = '_ZNK8Pistache5Async8ResolverclIlEEbOT_'
REJECT = '_ZNK8Pistache5Async9RejectionclINS_5ErrorEEEbT_'
P = '_ZN8Pistache3Tcp9Transport'
UNITS = {'ready': dict(src=TR, mode='sel', roots=[P + '7onReadyERKNS_3Aio5FdSetE'], stubs_re=r'^_ZNK?8Pistache3Tcp9Transport(16handleTimerQueueEv|15handlePeerQueueEv|12handleNotifyEv|14handleIncomingE|11handleTimerE|14asyncWriteImplEi|8isPeerFd|9isTimerFd|7getPeer)|^_ZN8Pistache5QueueINS_3Tcp9Transport10WriteEntryEE7popSafeEv'),
         'tw': dict(src=TR, mode='sel', roots=[AWI, '_ZN8Pistache3Tcp9Transport10WriteEntryD2Ev'], stubs=[RESOLVE, REJECT])}
def inst(ne, sz, calls, tiers, hard=False, witness=True, timeout=1500):
    d = {'ONLY_C07': None, 'NE': ne, 'SZ': sz, 'CALLS': calls, 'VP_DISPATCH_ru8p_u8p': None}
    if hard: d['HARD_ERRORS'] = None
    return dict(name='drain_e%d_s%d_c%d%s' % (ne, sz, calls, '_err' if hard else ''), units=['tw'], file='c06_write.c', defs=d, unwind=max(sz, 1) + 1, outer_unwind=ne + 1, tiers=tiers, witness=witness, timeout=timeout,
                bound='%d pending entries (raw or file, sizes 0..%d, head entry with any resume offset, any flags), %d invocations, every short-write/would-block%s script' % (ne, sz, calls, '/socket-error' if hard else ''),
                desc='after EAGAIN: no further send attempt in the same invocation (no spinning, loops terminate), Read|Write interest armed exactly once, lock released on return, other descriptors untouched; once the socket accepts data again everything pending is delivered')
HARNESSES = [
  dict(name='ready_event', units=['ready'], file='c07_ready.c', defs={'H_EVENT': None}, unwind=4, bound='one poll event for a peer descriptor with pending writes, every Read/Write/Hangup/Shutdown flag combination, the readable handler closing the peer or not', desc='every writable event leads to exactly one drain attempt (also when readable too); readable handled first; a peer closed while reading is not an error'),
  dict(name='ready_queue', units=['ready'], file='c07_ready.c', defs={'H_QUEUE': None}, unwind=5, bound='write-mailbox event with 0..2 posted entries for arbitrary descriptors (two peers + one unknown), queues of length 0..2 before', desc='handleWriteQueue (real code): entries appended in order under the lock; a queue made non-empty has Read|Write interest armed; unknown descriptors dropped'),
  inst(1, 3, 2, ('quick', 'thorough')),
  inst(2, 2, 2, ('quick', 'thorough')),
  inst(2, 2, 3, ('quick', 'thorough')),
  inst(2, 2, 2, ('quick', 'thorough'), hard=True),
  inst(3, 2, 2, ('thorough',), witness=False, timeout=1500),
  inst(2, 3, 3, ('thorough',), witness=False, timeout=1500),
  inst(1, 4, 3, ('thorough',), witness=False, timeout=1500),
  inst(2, 2, 3, ('thorough',), hard=True, witness=False, timeout=1500),
]
ASSUMPTIONS = ['ready_event / ready_queue: Transport::onReady and handleWriteQueue translated; handleIncoming, asyncWriteImpl, the other mailbox handlers, isPeerFd/getPeer and Queue::popSafe are recording stubs; FdSet, toWrite, lock_guard are ghost models',
               'sel mode: std::deque<WriteEntry> / unordered_map<Fd,deque> / unique_lock<mutex> / shared_ptr<Core> are ghost models at method boundaries (deque elements are exact-size heap blocks freed by pop_front, so a dangling `buffer` reference is a use-after-free)',
               'Resolver::operator() / Rejection::operator() are recording stubs (the promise core itself is C11)',
               '::send / ::sendfile: each call accepts an arbitrary count in 1..len (0 for len 0) or fails with EAGAIN (and, in the _err harness, EPIPE or another errno); the last invocation of a script accepts everything (the peer keeps reading)',
               'a later invocation happens only if write interest was armed (the writable event); the cross-thread half (issue order into toWrite) is the FIFO clause of C13']
OUTSIDE = ['TLS paths (PISTACHE_USE_SSL)', 'real sockets and the kernel (edge-triggered epoll semantics are the stated environment assumption of the invariant argument)', 'the cross-thread mailbox itself (C13)', 'more than the stated number of entries, bytes or invocations']
