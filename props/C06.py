# C06 -- queued writes reach the peer completely, in order and exactly once (drain loop of the write queue)
TR = '/repo/src/common/transport.cc'
OFFSETS = ['harness/offsets_http.cc']
AWI = '_ZN8Pistache3Tcp9Transport14asyncWriteImplEi'
RESOLVE = '_ZNK8Pistache5Async8ResolverclIlEEbOT_'
REJECT = '_ZNK8Pistache5Async9RejectionclINS_5ErrorEEEbT_'
UNITS = {'tw': dict(src=TR, mode='sel', roots=[AWI, '_ZN8Pistache3Tcp9Transport10WriteEntryD2Ev'], stubs=[RESOLVE, REJECT])}
def inst(ne, sz, calls, tiers, hard=False, witness=True, timeout=1500):
    d = {'NE': ne, 'SZ': sz, 'CALLS': calls, 'VP_DISPATCH_ru8p_u8p': None}
    if hard: d['HARD_ERRORS'] = None
    return dict(name='drain_e%d_s%d_c%d%s' % (ne, sz, calls, '_err' if hard else ''), units=['tw'], file='c06_write.c', defs=d, unwind=max(sz, 1) + 1, outer_unwind=ne + 1, tiers=tiers, witness=witness, timeout=timeout,
                bound='%d pending entries (raw or file, sizes 0..%d, head entry with any resume offset, any flags), %d invocations, every short-write/would-block%s script' % (ne, sz, calls, '/socket-error' if hard else ''),
                desc='stream continuity at every send/sendfile call; promise settled at most once, fulfilled after the last byte with the full size; EAGAIN re-queues the tail at the head; no send after EAGAIN; lock released; other queues untouched')
HARNESSES = [
  inst(1, 3, 2, ('quick', 'thorough')),
  inst(2, 2, 2, ('quick', 'thorough')),
  inst(2, 2, 3, ('quick', 'thorough')),
  inst(2, 2, 2, ('quick', 'thorough'), hard=True),
  inst(3, 2, 2, ('thorough',), witness=False, timeout=1500),
  inst(2, 3, 3, ('thorough',), witness=False, timeout=1500),
  inst(1, 4, 3, ('thorough',), witness=False, timeout=1500),
  inst(2, 2, 3, ('thorough',), hard=True, witness=False, timeout=1500),
]
ASSUMPTIONS = ['sel mode: std::deque<WriteEntry> / unordered_map<Fd,deque> / unique_lock<mutex> / shared_ptr<Core> are ghost models at method boundaries (deque elements are exact-size heap blocks freed by pop_front, so a dangling `buffer` reference is a use-after-free)',
               'Resolver::operator() / Rejection::operator() are recording stubs (the promise core itself is C11)',
               '::send / ::sendfile: each call accepts an arbitrary count in 1..len (0 for len 0) or fails with EAGAIN (and, in the _err harness, EPIPE or another errno); the last invocation of a script accepts everything (the peer keeps reading)',
               'a later invocation happens only if write interest was armed (the writable event); the cross-thread half (issue order into toWrite) is the FIFO clause of C13']
OUTSIDE = ['TLS paths (PISTACHE_USE_SSL)', 'real sockets and the kernel', 'handleWriteQueue / asyncWrite enqueueing (C13 covers the queue)', 'more than the stated number of entries, bytes or invocations']
